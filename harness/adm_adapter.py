"""Adapter for partitioning an aggregate model (C13): raw ARM graphs are written into the in-memory store, then the
real NetworkXARMGraph.generate_adms() / ABCADMPropertyGraph.rewrite_delegations() run.  Concretise -> call -> project."""
import json

from . import plainjson

from fim.graph import networkx_property_graph as nxpg
from fim.graph.networkx_property_graph import NetworkXPropertyGraph, NetworkXGraphImporter
from fim.graph.resources.networkx_arm import NetworkXARMGraph
from fim.graph.resources.networkx_adm import NetworkXADMGraph
from fim.slivers.delegations import Delegation, Delegations, DelegationType

from .cbm_adapter import _details, _det_token
from .store_adapter import tok

TYPE_OF = {"NetworkNode": "Server", "Component": "SmartNIC", "NetworkService": "MPLS", "ConnectionPoint": "TrunkPort", "Link": "L2Path"}
DPROP = (("cap", "CapacityDelegations", DelegationType.CAPACITY), ("lab", "LabelDelegations", DelegationType.LABEL))


def project_graph(imp, gid):
    g = imp.storage.extract_graph(gid)
    if g is None:
        return {"n": {}, "e": []}
    nodes = {}
    for _, d in g.nodes(data=True):
        deleg = {}
        for t, pn, at in DPROP:
            text = d.get(pn)
            if pn in d and not isinstance(text, str):
                deleg[t] = {"?": tok(text)}
                continue
            if not isinstance(text, str) or text == "":
                continue
            try:
                ent = plainjson.delegation_entries(text)
            except Exception as e:                                # noqa: an undecodable stored delegation is an observation
                deleg[t] = {"?undecodable": type(e).__name__}
                continue
            if ent:
                deleg[t] = {did: _det_token(det) for did, det in ent.items()}
        other = {k: v for k, v in d.items() if k not in ("GraphID", "NodeID", "Class", "CapacityDelegations", "LabelDelegations",
                                                        "Name", "Type", "StitchNode")}
        props = other.get("Site") if set(other) == {"Site"} and d.get("Name") == d.get("NodeID") and d.get("Type") == TYPE_OF.get(d.get("Class")) \
            else "?" + tok(other)
        nodes[d.get("NodeID")] = {"cls": d.get("Class"), "props": props, "stitch": d.get("StitchNode") == "true", "deleg": deleg}
    edges = sorted(({"ends": sorted({g.nodes[u].get("NodeID"), g.nodes[v].get("NodeID")}), "rel": d.get("Class")}
                    for u, v, d in g.edges(data=True)), key=lambda e: (e["ends"], e["rel"]))
    return {"n": nodes, "e": edges}


class ARMRunner:
    ARM_ID = "the-arm"

    def __init__(self):
        nxpg.NetworkXGraphStorage.storage_instance = None
        self.imp = NetworkXGraphImporter()
        self.g = NetworkXPropertyGraph(graph_id=self.ARM_ID, importer=self.imp)

    def load(self, arm):
        self.imp.delete_all_graphs()
        for x, nd in arm["n"].items():
            props = {"Name": x, "Type": TYPE_OF[nd["cls"]], "Site": nd["props"], "StitchNode": "true" if nd["stitch"] else "false"}
            for t, pn, at in DPROP:
                ent = (nd["deleg"] or {}).get(t)
                if not ent:
                    continue
                ds = Delegations(atype=at)
                for did, det in ent.items():
                    d = Delegation(atype=at, delegation_id=did)
                    d.set_details(_details(t, det))
                    ds.add_delegations(d)
                props[pn] = ds.to_json()
            self.g.add_node(node_id=x, label=nd["cls"], props=props)
        for ed in arm["e"]:
            a, b = (ed["ends"][0], ed["ends"][-1])
            self.g.add_link(node_a=a, rel=ed["rel"], node_b=b)

    def apply(self, o):
        op = o["op"]
        try:
            if op == "LoadARM":
                self.load(o["arm"])
                return "ok", {"k": "none"}
            if op == "LoadFile":          # a model file of the repository; o["arm"] is its projection (see file_script)
                self.imp.delete_all_graphs()
                g = self.imp.import_graph_from_file_direct(graph_file=o["file"])
                self.ARM_ID = g.graph_id
                self.g = NetworkXPropertyGraph(graph_id=g.graph_id, importer=self.imp)
                return "ok", {"k": "none"}
            if op == "Grow":
                nd = o["nd"]
                props = {"Name": o["x"], "Type": TYPE_OF[nd["cls"]], "Site": nd["props"], "StitchNode": "true" if nd["stitch"] else "false"}
                for t, pn, at in DPROP:
                    ent = (nd["deleg"] or {}).get(t)
                    if not ent:
                        continue
                    ds = Delegations(atype=at)
                    for did, det in ent.items():
                        d = Delegation(atype=at, delegation_id=did)
                        d.set_details(_details(t, det))
                        ds.add_delegations(d)
                    props[pn] = ds.to_json()
                self.g.add_node(node_id=o["x"], label=nd["cls"], props=props)
                return "ok", {"k": "none"}
            # ONE aggregate-model object per loaded model: it is a live view, and must not remember earlier partitions
            if getattr(self, "arm", None) is None or self.arm_of is not self.g:
                self.arm, self.arm_of = NetworkXARMGraph(graph=self.g), self.g
            arm = self.arm
            guids = None
            adms = arm.generate_adms(delegation_guids=guids)
            out = {}
            for d, ag in adms.items():
                if op in ("PartitionAndRekey", "PartitionAndRekeyTwice"):
                    NetworkXADMGraph(graph_id=ag.graph_id, importer=self.imp).rewrite_delegations(real_adm_id="G-" + d)
                if op == "PartitionAndRekeyTwice":
                    NetworkXADMGraph(graph_id=ag.graph_id, importer=self.imp).rewrite_delegations(real_adm_id="G-" + d)
                if op == "PartitionAndRekeySame":
                    NetworkXADMGraph(graph_id=ag.graph_id, importer=self.imp).rewrite_delegations(real_adm_id=d)
                out[d] = project_graph(self.imp, ag.graph_id)
            for ag in adms.values():
                ag.delete_graph()
            return "ok", {"k": "adms", "v": out}
        except Exception as e:  # noqa
            return type(e).__name__, {"k": "none"}


def file_script(path):
    """script for a model file: the first line carries the file's own projection as the loaded aggregate"""
    r = ARMRunner()
    g = r.imp.import_graph_from_file_direct(graph_file=path)
    arm = project_graph(r.imp, g.graph_id)
    return [{"op": "LoadFile", "file": path, "arm": arm}, {"op": "Partition"}, {"op": "PartitionAndRekey"}]


def run_script(script):
    r = ARMRunner()
    steps = []
    for o in script:
        out, res = r.apply(o)
        steps.append({"op": o, "out": out, "res": res, "state": project_graph(r.imp, r.ARM_ID)})
    return {"steps": steps}
