"""Adapter for the combined broker model (C14): Neo4jCBMGraph's merge_adm / unmerge_adm / _update_node_delegations and
ABCCBMPropertyGraph.snapshot / rollback are run, unmodified, on the in-memory shared store through the abstract graph
interface (a class that mixes those methods into NetworkXPropertyGraph; merge_adm's Neo4jADMGraph is pointed at
NetworkXADMGraph).  Concretise -> call -> project."""
import json

import fim.graph.resources.neo4j_cbm as ncbm
from fim.graph import networkx_property_graph as nxpg
from fim.graph.networkx_property_graph import NetworkXPropertyGraph, NetworkXGraphImporter
from fim.graph.resources.networkx_adm import NetworkXADMGraph
from fim.graph.resources.abc_cbm import ABCCBMPropertyGraph
from fim.slivers.capacities_labels import Capacities, Labels, StructuralInfo
from fim.slivers.delegations import Delegation, Delegations, DelegationType

from .store_adapter import tok
from . import plainjson


class MemCBM(ABCCBMPropertyGraph, NetworkXPropertyGraph):
    def __init__(self, *, graph_id, importer, logger=None):
        NetworkXPropertyGraph.__init__(self, graph_id=graph_id, importer=importer, logger=logger)

    merge_adm = ncbm.Neo4jCBMGraph.merge_adm
    unmerge_adm = ncbm.Neo4jCBMGraph.unmerge_adm
    _update_node_delegations = ncbm.Neo4jCBMGraph._update_node_delegations

    get_bqm = ncbm.Neo4jCBMGraph.get_bqm
    get_delegations = ncbm.Neo4jCBMGraph.get_delegations
    DELEGATION_TYPE_TO_PROP_NAME = ncbm.Neo4jCBMGraph.DELEGATION_TYPE_TO_PROP_NAME

    def get_matching_nodes_with_components(self, **kwargs):
        raise NotImplementedError

    def get_intersite_links(self):
        raise NotImplementedError

    def get_sites(self):
        raise NotImplementedError

    def get_disconnected_sites(self):
        raise NotImplementedError

    def get_connected_sites(self):
        raise NotImplementedError

    def get_facility_ports(self):
        raise NotImplementedError


DET = {}


def _details(kind, token):
    """details token -> concrete Capacities / Labels (distinct per token), remembered for the way back"""
    n = (sum(ord(c) for c in token) % 50) + 1
    if kind == "cap":
        d = Capacities(core=n, ram=2 * n, unit=1)
    else:
        d = Labels(vlan_range="%d-%d" % (n, n + 100), local_name=token)
    DET[json.dumps(d.to_dict(), sort_keys=True)] = token
    return d


def _det_token(d):
    return DET.get(json.dumps(d, sort_keys=True), "?" + json.dumps(d, sort_keys=True))


class CBMRunner:
    CBM_ID = "the-cbm"

    def __init__(self):
        nxpg.NetworkXGraphStorage.storage_instance = None
        ncbm.Neo4jADMGraph = NetworkXADMGraph
        self.imp = NetworkXGraphImporter()
        self.cbm = MemCBM(graph_id=self.CBM_ID, importer=self.imp)
        self.adms = {}
        self.snaps = {}

    def load_family(self, fam):
        for i, m in fam.items():
            gid = "adm-" + i
            g = NetworkXADMGraph(graph_id=gid, importer=self.imp)
            for x, nd in m["n"].items():
                props = {"Name": x, "Type": "Server", "Site": nd["props"], "StitchNode": "false"}
                for t, det in (nd["deleg"] or {}).items():
                    at = DelegationType.CAPACITY if t == "cap" else DelegationType.LABEL
                    ds = Delegations(atype=at)
                    d = Delegation(atype=at, delegation_id="delegation-of-" + i)
                    d.set_details(_details(t, det))
                    ds.add_delegations(d)
                    props["CapacityDelegations" if t == "cap" else "LabelDelegations"] = ds.to_json()
                g.add_node(node_id=x, label="NetworkNode", props=props)
            for ed in m["e"]:
                a, b = (ed[0], ed[1]) if len(ed) == 2 else (ed[0], ed[0])
                g.add_link(node_a=a, rel="connects", node_b=b)
            self.adms[i] = g

    # ------------------------------------------------------------------------------------------- projection
    def _graph_state(self, gid, as_cbm):
        g = self.imp.storage.extract_graph(gid)
        if g is None:
            return {"n": {}, "e": []}
        nodes = {}
        for _, d in g.nodes(data=True):
            x = d.get("NodeID")
            deleg = {}
            for t, pn, at in (("cap", "CapacityDelegations", DelegationType.CAPACITY), ("lab", "LabelDelegations", DelegationType.LABEL)):
                text = d.get(pn)
                if not isinstance(text, str) or text == "":
                    continue                                  # no text / the erased marker: nothing delegated
                try:
                    ent = {did: _det_token(det) for did, det in plainjson.delegation_entries(text).items()}
                except Exception as e:                        # noqa: an undecodable stored delegation is an observation
                    deleg[t] = {"?undecodable": type(e).__name__} if as_cbm else "?undecodable"
                    continue
                if not ent:
                    continue
                if as_cbm:
                    deleg[t] = {k[4:] if k.startswith("adm-") else "?" + k: v for k, v in ent.items()}
                else:
                    deleg[t] = list(ent.values())[0] if len(ent) == 1 else "?" + json.dumps(ent)
            try:
                ids = plainjson.adm_graph_ids(d.get("StructuralInfo")) if isinstance(d.get("StructuralInfo"), str) else []
            except Exception:                                     # noqa
                ids = ["?undecodable"]
            adms = sorted(a[4:] if a.startswith("adm-") else "?" + a for a in ids)
            other = {k: v for k, v in d.items() if k not in ("GraphID", "NodeID", "Class", "CapacityDelegations", "LabelDelegations",
                                                            "StructuralInfo", "Name", "Type", "StitchNode")}
            props = other.get("Site") if set(other) == {"Site"} and d.get("Name") == x else "?" + tok(other)
            nd = {"props": props, "deleg": deleg}
            if as_cbm:
                nd["adms"] = adms
                nd["adms_distinct"] = len(set(adms)) == len(adms)
            nodes[x] = nd
        edges = sorted(sorted({g.nodes[u].get("NodeID"), g.nodes[v].get("NodeID")}) for u, v in g.edges())
        return {"n": nodes, "e": edges}

    def project(self):
        # any graph in the store that is neither the CBM, a source model nor a snapshot is a left-over temporary
        gids = {d.get("GraphID") for _, d in self.imp.storage.graphs.nodes(data=True)}
        known = {self.CBM_ID} | {"adm-" + i for i in self.adms} | set(self.snaps.values())
        return {"cbm": self._graph_state(self.CBM_ID, True),
                "adm": {i: self._graph_state("adm-" + i, False) for i in self.adms},
                "snaps": {k: self._graph_state(g, True) for k, g in self.snaps.items()},
                "leftover_graphs": sorted(str(x) for x in gids - known), "plug": self.plugged()}

    @staticmethod
    def plugged():
        from fim.pluggable import PluggableRegistry, PluggableType
        return bool(PluggableRegistry().pluggable_registered(t=PluggableType.Broker))

    def apply(self, o):
        op = o["op"]
        try:
            if op == "LoadFamily":
                self.load_family(o["fam"])
            elif op == "Merge":
                self.cbm.merge_adm(adm=self.adms[o["i"]])
            elif op == "Unmerge":
                self.cbm.unmerge_adm(graph_id="adm-" + o["i"])
            elif op == "Snapshot":
                old = self.snaps.pop(o["k"], None)
                if old is not None:
                    self.imp.delete_graph(graph_id=old)
                self.snaps[o["k"]] = self.cbm.snapshot()
            elif op == "Rollback":
                self.cbm.rollback(graph_id=self.snaps[o["k"]])
                self.snaps.pop(o["k"])
            elif op == "GetDelegations":
                at = DelegationType.CAPACITY if o["t"] == "cap" else DelegationType.LABEL
                v = self.cbm.get_delegations(node_id=o["x"], adm_id="adm-" + o["i"], delegation_type=at)
                if v is None:
                    self.res = {"k": "deleg", "v": "none"}
                else:
                    v = [v] if isinstance(v, dict) else v
                    toks = [_det_token(d.get("capacities") or d.get("labels") or d) for d in v] \
                        if isinstance(v, list) else ["?" + json.dumps(v)]
                    self.res = {"k": "deleg", "v": toks[0] if len(toks) == 1 else "?" + json.dumps(v)}
            elif op in ("Plug", "Unplug"):
                from fim.pluggable import PluggableRegistry, PluggableType, BrokerPluggable

                class Marker(BrokerPluggable):
                    def plug_produce_bqm(self, *, cbm, **kwargs):
                        return ("produced-by-plugin", cbm.graph_id)
                if op == "Plug":
                    PluggableRegistry().register_pluggable(t=PluggableType.Broker, p=Marker, actor=None)
                else:
                    PluggableRegistry().unregister_pluggable(t=PluggableType.Broker)
            elif op == "GetBQM":
                before = self._graph_state(self.CBM_ID, True)
                b = self.cbm.get_bqm()
                if isinstance(b, tuple):
                    self.res = {"k": "bqm", "via": "plugin", "same": b == ("produced-by-plugin", self.CBM_ID)}
                else:
                    same = self._graph_state(b.graph_id, True) == before and b.graph_id != self.CBM_ID
                    self.imp.delete_graph(graph_id=b.graph_id)
                    self.res = {"k": "bqm", "via": "copy", "same": bool(same)}
            else:
                raise ValueError(op)
            return "ok"
        except Exception as e:  # noqa
            return type(e).__name__


def run_script(script):
    r = CBMRunner()
    steps = []
    try:
        for o in script:
            r.res = {"k": "none"}
            out = r.apply(o)
            steps.append({"op": o, "out": out, "res": r.res, "state": r.project()})
    finally:
        from fim.pluggable import PluggableRegistry, PluggableType
        PluggableRegistry().unregister_pluggable(t=PluggableType.Broker)      # the registry is process-wide
    return {"steps": steps}
