"""Entry point of every registered check:  python -m harness.check <ID> --tier quick|thorough

exit 0: property held on everything explored (known findings are printed as KNOWN-FINDING lines)
exit 1: at least one line 'VIOLATION property=<id> replay=<path>'
exit 2: machinery failure (TLC crashed, trace without verdict, ...) - nothing is concluded
"""
import argparse
import importlib
import os
import sys
import traceback


def main():
    ap = argparse.ArgumentParser()
    ap.add_argument("prop")
    ap.add_argument("--tier", default=os.environ.get("VERIF_TIER", "quick"))
    ap.add_argument("--seed", type=int, default=int(os.environ.get("VERIF_SEED", "20261001")))
    a = ap.parse_args()
    os.environ.setdefault("PYTHONHASHSEED", "0")
    sys.path.insert(0, os.environ.get("VERIF_REPO", "/repo"))
    from harness import core, tlc
    try:
        mod = importlib.import_module("harness.props." + a.prop.lower())
        rep = mod.run(a.tier, a.seed)
        rc = core.finalize(rep, getattr(mod, "LEVEL", "model_checking"))
    except tlc.TLCError as e:
        print("MACHINERY-FAILURE " + a.prop + ": " + str(e)[:4000])
        sys.exit(2)
    except Exception:
        traceback.print_exc()
        print("MACHINERY-FAILURE " + a.prop)
        sys.exit(2)
    sys.exit(rc)


if __name__ == "__main__":
    main()
