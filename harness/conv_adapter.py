"""Adapter for sliver <-> graph / dictionary / JSON conversion and the model-element property API (C02).

An abstract sliver is a list of elements {path, kind, type, props} (path = '/'-joined names, the first entry is the root);
property values are the tokens 'v1' / 'v2' of VAL below (every (property, token) pair is a distinct concrete value, so a
value landing under the wrong property is visible).  The graph is an ExperimentTopology's model; elements are addressed by
node id 'id:<path>'."""
import contextlib
import io
import json

from fim.user.topology import ExperimentTopology
from fim.user.model_element import ElementType
from fim.user.node import Node
from fim.user.component import Component
from fim.user.interface import Interface
from fim.user.network_service import NetworkService
from fim.user.link import Link
from fim.graph.abc_property_graph import ABCPropertyGraph as G
from fim.slivers.json import JSONSliver
from fim.slivers.network_node import NodeSliver, NodeType
from fim.slivers.attached_components import AttachedComponentsInfo, ComponentSliver, ComponentType
from fim.slivers.network_service import NetworkServiceSliver, NetworkServiceInfo, ServiceType, NSLayer, MirrorDirection
from fim.slivers.interface_info import InterfaceSliver, InterfaceInfo, InterfaceType
from fim.slivers.network_link import NetworkLinkSliver, LinkType
from fim.slivers.capacities_labels import (Capacities, Labels, CapacityHints, ReservationInfo, StructuralInfo, Location,
                                           Flags)
from fim.slivers.delegations import Delegation, Delegations, DelegationType
from fim.slivers.tags import Tags
from fim.slivers.json_data import MeasurementData, UserData, LayoutData
from fim.slivers.gateway import Gateway
from fim.slivers.path_info import PathInfo, ERO, Path
from fim.slivers.maintenance_mode import MaintenanceInfo, MaintenanceEntry, MaintenanceState

SLIVER = {"node": NodeSliver, "comp": ComponentSliver, "svc": NetworkServiceSliver, "if": InterfaceSliver, "link": NetworkLinkSliver}
ELEM = {"node": Node, "comp": Component, "svc": NetworkService, "if": Interface, "link": Link}
TYPES = {"node": NodeType, "comp": ComponentType, "svc": ServiceType, "if": InterfaceType, "link": LinkType}
CLASS2KIND = {G.CLASS_NetworkNode: "node", G.CLASS_Component: "comp", G.CLASS_NetworkService: "svc",
              G.CLASS_ConnectionPoint: "if", G.CLASS_Link: "link"}
STRUCTURAL = {"name", "type", "network_service_info", "attached_components_info", "interface_info"}


def _deleg(at, did, **kw):
    ds = Delegations(atype=at)
    d = Delegation(atype=at, delegation_id=did)
    d.set_details(Capacities(**kw) if at == DelegationType.CAPACITY else Labels(**kw))
    ds.add_delegations(d)
    return ds


def _path(*hops):
    p = Path()
    p.set_symmetric(list(hops))
    return p


def _ero(strict, *hops):
    e = ERO(strict=strict)
    e.set(payload=_path(*hops))
    return e


def _pinfo(*hops):
    pi = PathInfo()
    pi.set(payload=_path(*hops))
    return pi


def _maint(**kw):
    mi = MaintenanceInfo()
    for k, v in kw.items():
        mi.add(k, MaintenanceEntry(state=MaintenanceState[v]))
    mi.finalize()
    return mi


# every (property, token) is built fresh on each use
VAL = {
    "model": {"v1": lambda: "model-one", "v2": lambda: "model two"},
    "capacities": {"v1": lambda: Capacities(core=2, ram=8), "v2": lambda: Capacities(disk=100, unit=3)},
    "capacity_hints": {"v1": lambda: CapacityHints(instance_type="fabric.c2.m8.d10"),
                       "v2": lambda: CapacityHints(instance_type="fabric.c4.m16.d100")},
    "labels": {"v1": lambda: Labels(vlan="100", local_name="p1"),
               "v2": lambda: Labels(ipv4=["192.168.1.1", "192.168.1.2"], mac="aa:bb:cc:dd:ee:ff")},
    "capacity_delegations": {"v1": lambda: _deleg(DelegationType.CAPACITY, "del1", core=4),
                             "v2": lambda: _deleg(DelegationType.CAPACITY, "del2", ram=16)},
    "label_delegations": {"v1": lambda: _deleg(DelegationType.LABEL, "del1", vlan_range="1-10"),
                          "v2": lambda: _deleg(DelegationType.LABEL, "del2", vlan="7")},
    "capacity_allocations": {"v1": lambda: Capacities(core=1), "v2": lambda: Capacities(core=3, ram=1)},
    "label_allocations": {"v1": lambda: Labels(vlan="101"), "v2": lambda: Labels(bdf="0000:41:00.0")},
    "reservation_info": {"v1": lambda: ReservationInfo(reservation_id="r1", reservation_state="Active"),
                         "v2": lambda: ReservationInfo(reservation_id="r2", error_message="went wrong")},
    "structural_info": {"v1": lambda: StructuralInfo(adm_graph_ids=["a1", "a2"]),
                        "v2": lambda: StructuralInfo(sub_graph_id="sg")},
    "details": {"v0": lambda: "", "v1": lambda: "some details", "v2": lambda: "other, with 'quotes' and \"more\""},
    "node_map": {"v1": lambda: ("g1", "n1"), "v2": lambda: ("g2", "n2")},
    "stitch_node": {"v0": lambda: False, "v1": lambda: True},
    "tags": {"v1": lambda: Tags("t1", "t2"), "v2": lambda: Tags("blue")},
    "flags": {"v1": lambda: Flags(auto_config=True), "v2": lambda: Flags(ptp=True, auto_mount=True)},
    "mf_data": {"v1": lambda: MeasurementData('{"m": 1}'), "v2": lambda: MeasurementData({"m": [1, 2], "x": "y"})},
    "user_data": {"v1": lambda: UserData('{"u": 1}'), "v2": lambda: UserData({"u": {"deep": True}})},
    "layout_data": {"v1": lambda: LayoutData('{"l": 1}'), "v2": lambda: LayoutData({"l": [0.5, 2]})},
    "boot_script": {"v1": lambda: "#!/bin/bash\necho one", "v2": lambda: "#!/bin/sh\necho \"two\" > /tmp/x"},
    "image_ref": {"v1": lambda: "default_ubuntu_20", "v2": lambda: "rocky_8"},
    "image_type": {"v1": lambda: "qcow2", "v2": lambda: "raw"},
    "management_ip": {"v1": lambda: "192.168.10.10", "v2": lambda: "2001:db8::1"},
    "allocation_constraints": {"v1": lambda: "constraint one", "v2": lambda: "constraint two"},
    "service_endpoint": {"v1": lambda: "192.168.20.1", "v2": lambda: "10.0.0.1"},
    "site": {"v0": lambda: "", "v1": lambda: "RENC", "v2": lambda: "UKY"},
    "location": {"v1": lambda: Location(postal="100 Europa Dr., Chapel Hill, NC 27517"), "v2": lambda: Location(lat=35.5, lon=-79.25)},
    "maintenance_info": {"v1": lambda: _maint(w1="PreMaint"), "v2": lambda: _maint(w1="Maint", w2="Active")},
    "layer": {"v1": lambda: NSLayer.L2, "v2": lambda: NSLayer.L3},
    "technology": {"v1": lambda: "tech-one", "v2": lambda: "tech-two"},
    "ero": {"v1": lambda: _ero(False, "10.1.1.1", "10.1.1.2"), "v2": lambda: _ero(True, "10.2.2.2")},
    "path_info": {"v1": lambda: _pinfo("10.3.3.1", "10.3.3.2"), "v2": lambda: _pinfo("10.4.4.4")},
    "controller_url": {"v1": lambda: "https://ctl.one/", "v2": lambda: "https://ctl.two/api?x=1&y=2"},
    "gateway": {"v1": lambda: Gateway(Labels(ipv4_subnet="192.168.1.0/24", ipv4="192.168.1.1")),
                "v2": lambda: Gateway(Labels(ipv6_subnet="2001:db8::/64", ipv6="2001:db8::1", mac="00:11:22:33:44:55"))},
    "mirror_port": {"v1": lambda: "HundredGigE0/0/0/1", "v2": lambda: "port two"},
    "mirror_vlan": {"v1": lambda: "100", "v2": lambda: "200"},
    "mirror_direction": {"v1": lambda: MirrorDirection.Both, "v2": lambda: MirrorDirection.RX_Only},
    "peer_labels": {"v1": lambda: Labels(vlan="300"), "v2": lambda: Labels(account_id="acct", asn="65000")},
}


def canon(v):
    """Canonical JSON-able form of a property value (independent of object identity)."""
    if v is None:
        return None
    if isinstance(v, Gateway):
        return ["gw", canon(v.lab)]
    if isinstance(v, (MeasurementData, UserData, LayoutData)):
        return ["jd", v.data]
    if isinstance(v, MaintenanceInfo):
        return ["mi", json.loads(v.to_json())]
    if hasattr(v, "to_json"):
        return ["js", json.loads(v.to_json())]
    if isinstance(v, (tuple, list)):
        return ["seq", [canon(x) for x in v]]
    if isinstance(v, (bool, int, float)):
        return ["pod", v]
    return ["str", str(v)]


_CANON = {}


def tok_of(prop, v):
    if v is None:
        return "absent"
    if prop == "stitch_node" and v is False:
        return "absent"
    if prop not in _CANON:
        _CANON[prop] = {t: json.dumps(canon(f()), sort_keys=True) for t, f in VAL.get(prop, {}).items()}
    c = json.dumps(canon(v), sort_keys=True)
    for t, cv in _CANON[prop].items():
        if cv == c:
            return t
    return "other:" + c[:80]


def vocab(kind):
    return sorted(set(SLIVER[kind].list_properties()) - STRUCTURAL)


def sliver_props(kind, sl):
    out = {}
    for p in vocab(kind):
        t = tok_of(p, sl.get_property(p))
        if t != "absent":
            out[p] = t
    return out


# ------------------------------------------------------------------------------------------------ abstract <-> sliver objects
def build(desc):
    """desc: list of {path, kind, type, props}; returns the root sliver object."""
    objs = {}
    root = None
    for e in desc:
        sl = SLIVER[e["kind"]]()
        sl.node_id = "id:" + e["path"]
        sl.set_name(e["path"].split("/")[-1])
        sl.set_type(TYPES[e["kind"]][e["type"]])
        for p, t in sorted((e["props"] or {}).items()):
            sl.set_property(p, VAL[p][t]())
        objs[e["path"]] = (e["kind"], sl)
        if root is None:
            root = sl
            continue
        pk, parent = objs[e["path"].rsplit("/", 1)[0]]
        if e["kind"] == "comp":
            if parent.attached_components_info is None:
                parent.attached_components_info = AttachedComponentsInfo()
            parent.attached_components_info.add_device(sl)
        elif e["kind"] == "svc":
            if parent.network_service_info is None:
                parent.network_service_info = NetworkServiceInfo()
            parent.network_service_info.add_network_service(sl)
        else:
            if parent.interface_info is None:
                parent.interface_info = InterfaceInfo()
            parent.interface_info.add_interface(sl)
    return root


def flatten(kind, sl, prefix=""):
    """sliver object -> {path: {kind, type, props}} (paths relative to the root's own name)."""
    path = prefix + (sl.get_name() or "?")
    out = {path: {"kind": kind, "type": str(sl.get_type()) if sl.get_type() is not None else "?", "props": sliver_props(kind, sl)}}
    if kind == "node" and sl.attached_components_info is not None:
        for c in sl.attached_components_info.list_devices():
            out.update(flatten("comp", c, path + "/"))
    if kind in ("node", "comp") and sl.network_service_info is not None:
        for s in sl.network_service_info.list_services():
            out.update(flatten("svc", s, path + "/"))
    if kind in ("svc", "if") and getattr(sl, "interface_info", None) is not None:
        for i in sl.interface_info.list_interfaces():
            out.update(flatten("if", i, path + "/"))
    return out


def sliver_res(kind, sl, root_path):
    """result record: paths made absolute with the parent prefix of the root"""
    prefix = root_path.rsplit("/", 1)[0] + "/" if "/" in root_path else ""
    return {"k": "sliver", "el": flatten(kind, sl, prefix)}


FROM_DICT = {"node": G.build_deep_node_sliver_from_dict, "comp": G.build_deep_component_sliver_from_dict,
             "svc": G.build_deep_ns_sliver_from_dict, "if": G.build_deep_interface_sliver_from_dict,
             "link": G.build_deep_link_sliver_from_dict}


class ConvRunner:
    def __init__(self):
        self.t = ExperimentTopology()
        self.g = self.t.graph_model

    def kind_of(self, path):
        clazzes, _ = self.g.get_node_properties(node_id="id:" + path)
        return CLASS2KIND[clazzes[0]]

    def elem(self, path):
        kind = self.kind_of(path)
        kw = {}
        if kind in ("comp", "if"):
            kw = {"parent_node_id": None}
        if kind == "svc":
            kw = {"parent_node_id": None}
        return kind, ELEM[kind](name=path.split("/")[-1], node_id="id:" + path, topo=self.t, etype=ElementType.EXISTING, **kw)

    def state(self):
        out = {}
        try:
            ids = self.g.list_all_node_ids()
        except Exception:                                         # noqa: an empty graph has no node list
            ids = []
        for nid in ids:
            clazzes, props = self.g.get_node_properties(node_id=nid)
            kind = CLASS2KIND.get(clazzes[0], "?")
            path = nid[3:] if nid.startswith("id:") else "?" + nid
            dec = {"node": G.node_sliver_from_graph_properties_dict, "comp": G.component_sliver_from_graph_properties_dict,
                   "svc": G.network_service_sliver_from_graph_properties_dict, "if": G.interface_sliver_from_graph_properties_dict,
                   "link": G.link_sliver_from_graph_properties_dict}[kind]
            sl = dec(props)
            out[path] = {"kind": kind, "type": props.get(G.PROP_TYPE, "?"), "props": sliver_props(kind, sl)}
        return out

    def apply(self, o):
        op = o["op"]
        g = self.g
        none = {"k": "none"}
        if op == "Write":
            desc = o["sl"]
            root = desc[0]
            sl = build(desc)
            parent = "id:" + root["path"].rsplit("/", 1)[0] if "/" in root["path"] else None
            if root["kind"] == "node":
                g.add_network_node_sliver(sliver=sl)
            elif root["kind"] == "comp":
                g.add_component_sliver(parent_node_id=parent, component=sl)
            elif root["kind"] == "svc":
                g.add_network_service_sliver(parent_node_id=parent, network_service=sl)
            elif root["kind"] == "if":
                g.add_interface_sliver(parent_node_id=parent, interface=sl)
            else:
                g.add_network_link_sliver(lsliver=sl, interfaces=["id:" + p for p in o["ifs"]])
            return none
        if op == "Rebuild":
            kind, el = self.elem(o["path"])
            return sliver_res(kind, el.get_sliver(), o["path"])
        if op in ("DictRT", "JsonRT"):
            desc = o["sl"]
            kind = desc[0]["kind"]
            sl = build(desc)
            again_same = True
            if op == "DictRT":
                import copy
                d = G.sliver_to_dict(sl)
                json.dumps(d)
                d0 = copy.deepcopy(d)
                back = FROM_DICT[kind](props=d)
                # the dictionary handed in belongs to the caller: converting it again must give the same sliver
                again = FROM_DICT[kind](props=d)
                again_same = d == d0 and flatten(kind, again, "") == flatten(kind, back, "")
            else:
                text = JSONSliver.sliver_to_json(sl)
                if kind == "node":
                    back = JSONSliver.node_sliver_from_json(text)
                elif kind == "svc":
                    back = JSONSliver.network_service_sliver_from_json(text)
                else:
                    back = FROM_DICT[kind](props=json.loads(text))
            res = sliver_res(kind, back, desc[0]["path"])
            # the original must not have been touched by the conversion
            res["orig_same"] = flatten(kind, sl, "") == flatten(kind, build(desc), "") and again_same
            return res
        if op == "SetProp":
            kind, el = self.elem(o["path"])
            el.set_property(o["p"], VAL[o["p"]][o["v"]]())
            return {"k": "val", "v": tok_of(o["p"], el.get_property(o["p"]))}
        if op == "SetProps":
            kind, el = self.elem(o["path"])
            el.set_properties(**{p: VAL[p][t]() for p, t in (o["asg"] or {}).items()})
            return none
        if op in ("UnsetProp", "SetNone"):
            kind, el = self.elem(o["path"])
            if op == "UnsetProp":
                el.unset_property(o["p"])
            else:
                el.set_property(o["p"], None)
            return {"k": "val", "v": tok_of(o["p"], el.get_property(o["p"]))}
        if op == "GetProp":
            kind, el = self.elem(o["path"])
            return {"k": "val", "v": tok_of(o["p"], el.get_property(o["p"]))}
        if op == "Vocab":
            return {"k": "vocab", "v": {k: vocab(k) for k in SLIVER},
                    "elem": {k: sorted(set(ELEM[k].list_properties()) - STRUCTURAL) for k in ELEM},
                    "unsettable": sorted(G.SLIVER_PROPERTY_TO_GRAPH)}
        raise ValueError("unknown op " + op)


def run_script(script):
    r = ConvRunner()
    steps = []
    prev = None
    buf = io.StringIO()
    for o in script:
        out, res = "ok", {"k": "none"}
        try:
            with contextlib.redirect_stdout(buf):
                res = r.apply(o)
        except Exception as e:                                    # noqa: the outcome class is the observation
            out = type(e).__name__
        st = r.state()
        steps.append({"op": o, "out": out, "res": res, "same": st == prev, "state": st})
        prev = st
    try:
        r.t.graph_model.delete_graph()
    except Exception:
        pass
    return {"steps": steps}
