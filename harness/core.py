"""Report / findings / evidence plumbing shared by all property checks."""
import hashlib
import json
import os
import sys
import time

ROOT = os.path.dirname(os.path.dirname(os.path.abspath(__file__)))
EVID = os.path.join(ROOT, "evidence")
REPLAYS = os.path.join(ROOT, "replays")
FINDINGS = os.path.join(ROOT, "known_findings.json")

TRUSTED_BASE = [
    "TLC 1.8 / SANY / CommunityModules (Json, IOUtils) evaluate the TLA+ operators correctly",
    "harness adapters: concretisation of abstract operations into public FIM calls and the read-only projection of "
    "the real objects to the abstract state (harness/*_adapter.py)",
    "networkx / lxml as used by the library",
]


class Reject:
    """One line of one trace that the specification refused."""

    def __init__(self, layer, variant, op, clause, script, line, detail=None):
        self.layer = layer
        self.variant = variant      # e.g. backend name
        self.op = op                # abstract op name (string)
        self.clause = clause
        self.script = script
        self.line = line
        self.detail = detail or {}

    def sig(self):
        return {"layer": self.layer, "variant": self.variant, "op": self.op, "clause": self.clause}


class Report:
    def __init__(self, prop, tier, seed):
        self.prop = prop
        self.tier = tier
        self.seed = seed
        self.t0 = time.time()
        self.states = 0
        self.transitions = 0
        self.traces = 0
        self.lines = 0
        self.samples = []
        self.rejects = []
        self.spec_violations = []   # TLC found a property violated on the model itself
        self.extra = {}
        self.assumptions = list(TRUSTED_BASE)
        self.mc_runs = []

    def add_mc(self, name, res, consts=None):
        self.states += res.distinct
        self.transitions += res.generated
        d = res.summary()
        d["name"] = name
        if consts:
            d["constants"] = consts
        self.mc_runs.append(d)
        if res.violation:
            self.spec_violations.append({"run": name, "violation": res.violation, "trace": res.out[res.out.find("Error:"):][:6000]})

    def add_sample(self, s):
        if len(self.samples) < 6:
            self.samples.append(s)


def load_findings():
    if not os.path.exists(FINDINGS):
        return []
    with open(FINDINGS) as f:
        return json.load(f).get("findings", [])


def _match(sig, fsig):
    for k, v in fsig.items():
        if v == "*":
            continue
        if k == "clause_prefix":
            if not str(sig.get("clause", "")).startswith(v):
                return False
            continue
        if sig.get(k) != v:
            return False
    return True


def finalize(rep, level="model_checking"):
    """Match rejections against known findings, write evidence, print the verdict lines, return the exit code."""
    os.makedirs(EVID, exist_ok=True)
    findings = [f for f in load_findings() if f.get("status", "open") == "open"]
    known_seen = {}
    violations = {}
    for r in rep.rejects:
        sig = r.sig()
        hit = None
        for f in findings:
            if _match(sig, f["sig"]):
                hit = f
                break
        if hit is not None:
            known_seen.setdefault(hit["id"], [hit, 0])[1] += 1
            continue
        key = json.dumps(sig, sort_keys=True)
        if key not in violations:
            violations[key] = [r, 0]
        violations[key][1] += 1
    lines = []
    for fid, (f, n) in sorted(known_seen.items()):
        lines.append(f"KNOWN-FINDING: property={f['property']} {f['what']} [{fid}; re-observed {n}x]")
    vio_paths = []
    if violations or rep.spec_violations:
        os.makedirs(REPLAYS, exist_ok=True)
    for key, (r, n) in violations.items():
        h = hashlib.sha1(key.encode()).hexdigest()[:10]
        path = os.path.join(REPLAYS, f"{rep.prop}-{h}.json")
        with open(path, "w") as fh:
            json.dump({"property": rep.prop, "sig": r.sig(), "count": n, "line": r.line, "script": r.script,
                       "detail": r.detail}, fh, indent=1)
        vio_paths.append(path)
        lines.append(f"VIOLATION property={rep.prop} replay={path}")
        lines.append(f"  # {r.layer}/{r.variant} op={r.op} line={r.line} clause={r.clause} ({n} occurrences)")
    for i, sv in enumerate(rep.spec_violations):
        path = os.path.join(REPLAYS, f"{rep.prop}-spec-{i}.txt")
        with open(path, "w") as fh:
            fh.write(sv["run"] + "\n" + sv["violation"] + "\n" + sv["trace"])
        vio_paths.append(path)
        lines.append(f"VIOLATION property={rep.prop} replay={path}")
        lines.append(f"  # the specification itself violates {sv['violation']}")
    nvio = len(vio_paths)
    cov = {
        "states": max(rep.states, 1) if rep.mc_runs else rep.states,
        "transitions": max(rep.transitions, 1) if rep.mc_runs else rep.transitions,
        "traces_validated_against_impl": rep.traces,
        "trace_lines_validated": rep.lines,
        "samples": rep.samples or ["(none)"],
        "tlc_runs": rep.mc_runs,
        "trusted_base": TRUSTED_BASE,
        "known_findings_reobserved": {k: v[1] for k, v in known_seen.items()},
        "rejected_lines": len(rep.rejects),
    }
    cov.update(rep.extra)
    ev = {"property_id": rep.prop, "tier": rep.tier, "seed": rep.seed, "level": level, "coverage": cov,
          "assumptions": rep.assumptions, "wall_s": round(time.time() - rep.t0, 2), "violations": nvio}
    with open(os.path.join(EVID, f"{rep.prop}.json"), "w") as fh:
        json.dump(ev, fh, indent=1, default=str)
    for ln in lines:
        print(ln)
    print(f"{rep.prop} {rep.tier}: spec states={rep.states} transitions={rep.transitions} traces={rep.traces} "
          f"lines={rep.lines} rejected={len(rep.rejects)} known={sum(v[1] for v in known_seen.values())} "
          f"violations={nvio} wall={ev['wall_s']}s")
    sys.stdout.flush()
    return 1 if nvio else 0
