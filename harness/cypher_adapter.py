"""Adapter for C19: the real Neo4j backend classes run against a stand-in driver that records every (statement, parameters)
pair handed to it.  No server is needed: the stand-in answers every query with a canned result chosen by a 'persona'
('some' = non-empty results, 'none' = nothing found) so that both sides of the result-handling branches are driven.

An operation instance = (operation, identifier arguments, persona); the same instance is executed with several sets of
stored VALUES (graph ids, node ids, names, property values): benign and adversarial (quotes, backslashes, braces, dollars,
newlines, Cypher keywords)."""
import contextlib
import io
import json
import os
import shutil
import tempfile

VALUE_SETS = [
    # benign
    {"g": "graph-0001", "g2": "graph-0002", "n": "node-a", "n2": "node-b", "v": "plain value", "v2": "other", "name": "name1", "t": "VM"},
    # quotes, backslash, braces, dollar
    {"g": "gr'aph\"1", "g2": "g2\\", "n": "no'de", "n2": "n\"2", "v": "it's a \"value\" with \\ and {braces} and $dollar",
     "v2": "x'}) DETACH DELETE n //", "name": "na'me", "t": "V'M"},
    # newline, keywords, trailing backslash
    {"g": "g\nMATCH (x) DELETE x", "g2": "}}{{", "n": "n' OR '1'='1", "n2": "$nodeA", "v": "line1\nline2 RETURN 1; //", "v2": "ends with backslash \\",
     "name": "{name}", "t": "`T`"},
]

GRAPHML = """<?xml version='1.0' encoding='utf-8'?>
<graphml xmlns="http://graphml.graphdrawing.org/xmlns" xmlns:xsi="http://www.w3.org/2001/XMLSchema-instance" xsi:schemaLocation="http://graphml.graphdrawing.org/xmlns http://graphml.graphdrawing.org/xmlns/1.0/graphml.xsd">
<key id="d4" for="edge" attr.name="Class" attr.type="string"/>
<key id="d3" for="node" attr.name="Name" attr.type="string"/>
<key id="d2" for="node" attr.name="Class" attr.type="string"/>
<key id="d1" for="node" attr.name="NodeID" attr.type="string"/>
<key id="d0" for="node" attr.name="GraphID" attr.type="string"/>
<graph edgedefault="undirected">
<node id="1"><data key="d0">GID</data><data key="d1">nid-1</data><data key="d2">NetworkNode</data><data key="d3">n1</data></node>
<node id="2"><data key="d0">GID</data><data key="d1">nid-2</data><data key="d2">Component</data><data key="d3">c1</data></node>
<edge source="1" target="2"><data key="d4">has</data></edge>
</graph></graphml>
"""


# ------------------------------------------------------------------------------------------------ stand-in driver
class FakeDict(dict):
    def __init__(self, persona):
        super().__init__()
        self.persona = persona

    def __missing__(self, k):
        some = self.persona == "some"
        if k == "properties(n)":
            return {"Name": "x", "Class": "NetworkNode", "Type": "VM", "NodeID": "id-1", "GraphID": "g",
                    "Labels": '{"vlan": "100"}', "CapacityDelegations": '{"adm1": [{"core": 1}]}', "LabelDelegations": ''} if some else {}
        if k == "labels(n)":
            return ["GraphNode", "NetworkNode"] if some else []
        if k == "type(r)":
            return "has"
        if k in ("properties(r)", "properties(s)"):
            return {"Class": "has"} if some else {}
        return ["id-1", "id-2"] if some else []

    def get(self, k, default=None):
        return self[k]

    def __len__(self):
        return 3 if self.persona == "some" else 0

    def __contains__(self, k):
        return self.persona == "some"


class FakeRecord:
    def __init__(self, persona):
        self.persona = persona

    def data(self):
        return FakeDict(self.persona)

    def value(self):
        return ["id-1", "id-2"] if self.persona == "some" else []

    def values(self):
        return [["id-1", "id-2"]] if self.persona == "some" else []

    def get(self, k, default=None):
        return "<graphml/>" if self.persona == "some" else "None"

    def __getitem__(self, k):
        return ["id-1", "id-2"] if self.persona == "some" else []


class FakeResult:
    def __init__(self, persona):
        self.persona = persona

    def single(self):
        return FakeRecord(self.persona) if self.persona != "null" else None

    def peek(self):
        return FakeRecord(self.persona) if self.persona == "some" else None

    def value(self):
        return ["id-1", "id-2"] if self.persona == "some" else []

    def values(self):
        return [["id-1", "id-2"]] if self.persona == "some" else []

    def data(self):
        return [FakeDict(self.persona)]

    def consume(self):
        return None

    def __iter__(self):
        return iter([FakeRecord(self.persona)] if self.persona == "some" else [])


class FakeSession:
    def __init__(self, drv):
        self.drv = drv

    def __enter__(self):
        return self

    def __exit__(self, *a):
        return False

    def run(self, query, parameters=None, **kw):
        p = dict(parameters or {})
        p.update(kw)
        self.drv.log.append({"q": query, "params": sorted(p), "vals": {k: (v if isinstance(v, (str, int)) else str(v)) for k, v in p.items()}})
        return FakeResult(self.drv.persona)

    def close(self):
        pass


class FakeDriver:
    def __init__(self):
        self.log = []
        self.persona = "some"

    def session(self, **kw):
        return FakeSession(self)

    def verify_connectivity(self):
        return None

    def close(self):
        pass


class FakeGraphDatabase:
    last = None

    @staticmethod
    def driver(url, auth=None, **kw):
        FakeGraphDatabase.last = FakeDriver()
        return FakeGraphDatabase.last


# ------------------------------------------------------------------------------------------------ operation catalogue
def catalogue():
    """name -> callable(env, V).  env: g, other (property graphs), cbm, adm, asm, imp (importer)."""
    from fim.slivers.delegations import DelegationType
    from fim.slivers.attached_components import AttachedComponentsInfo, ComponentSliver, ComponentType

    def comps(spec=((ComponentType.GPU, "Tesla T4"), (ComponentType.SmartNIC, "ConnectX-6"))):
        aci = AttachedComponentsInfo()
        for i, (t, m) in enumerate(spec):
            c = ComponentSliver()
            c.set_name("c%d" % i)
            c.set_type(t)
            if m is not None:
                c.set_model(m)
            aci.add_device(c)
        return aci

    ops = {
        "delete_graph": lambda e, V: e["g"].delete_graph(),
        "get_all_nodes_by_class": lambda e, V: e["g"].get_all_nodes_by_class(label="NetworkNode"),
        "get_all_nodes_by_class_and_type": lambda e, V: e["g"].get_all_nodes_by_class_and_type(label="NetworkNode", ntype=V["t"]),
        "get_all_network_nodes": lambda e, V: e["g"].get_all_network_nodes(),
        "get_all_network_links": lambda e, V: e["g"].get_all_network_links(),
        "get_all_network_service_nodes": lambda e, V: e["g"].get_all_network_service_nodes(),
        "list_all_node_ids": lambda e, V: e["g"].list_all_node_ids(),
        "get_node_properties": lambda e, V: e["g"].get_node_properties(node_id=V["n"]),
        "get_node_json_property_as_object": lambda e, V: e["g"].get_node_json_property_as_object(node_id=V["n"], prop_name="Labels"),
        "get_link_properties": lambda e, V: e["g"].get_link_properties(node_a=V["n"], node_b=V["n2"]),
        "update_node_property": lambda e, V: e["g"].update_node_property(node_id=V["n"], prop_name="Details", prop_val=V["v"]),
        "unset_node_property": lambda e, V: e["g"].unset_node_property(node_id=V["n"], prop_name="Details"),
        "update_nodes_property": lambda e, V: e["g"].update_nodes_property(prop_name="Details", prop_val=V["v"]),
        "update_node_properties": lambda e, V: e["g"].update_node_properties(node_id=V["n"], props={"Details": V["v"], "Site": V["v2"]}),
        "update_link_property": lambda e, V: e["g"].update_link_property(node_a=V["n"], node_b=V["n2"], kind="has", prop_name="Details", prop_val=V["v"]),
        "unset_link_property": lambda e, V: e["g"].unset_link_property(node_a=V["n"], node_b=V["n2"], kind="has", prop_name="Details"),
        "update_link_properties": lambda e, V: e["g"].update_link_properties(node_a=V["n"], node_b=V["n2"], kind="has", props={"Details": V["v"], "Layer": V["v2"]}),
        "serialize_graph": lambda e, V: e["g"].serialize_graph(),
        "graph_exists": lambda e, V: e["g"].graph_exists(),
        "clone_graph": lambda e, V: e["g"].clone_graph(new_graph_id=V["g2"]),
        "get_nodes_on_shortest_path": lambda e, V: e["g"].get_nodes_on_shortest_path(node_a=V["n"], node_z=V["n2"]),
        "get_nodes_on_shortest_path[rel]": lambda e, V: e["g"].get_nodes_on_shortest_path(node_a=V["n"], node_z=V["n2"], rel="connects"),
        "get_nodes_on_path_with_hops": lambda e, V: e["g"].get_nodes_on_path_with_hops(node_a=V["n"], node_z=V["n2"], hops=[V["v"]], cut_off=len(V["v"])),
        "get_first_neighbor": lambda e, V: e["g"].get_first_neighbor(node_id=V["n"], rel="has", node_label="Component"),
        "get_first_and_second_neighbor": lambda e, V: e["g"].get_first_and_second_neighbor(node_id=V["n"], rel1="has", node1_label="Component",
                                                                                             rel2="has", node2_label="NetworkService"),
        "delete_node": lambda e, V: e["g"].delete_node(node_id=V["n"]),
        "node_exists": lambda e, V: e["g"].node_exists(node_id=V["n"], label="NetworkNode"),
        "add_node": lambda e, V: e["g"].add_node(node_id=V["n"], label="NetworkNode", props={"Name": V["name"], "Details": V["v"]}),
        "add_node[no props]": lambda e, V: e["g"].add_node(node_id=V["n"], label="NetworkNode"),
        "add_link": lambda e, V: e["g"].add_link(node_a=V["n"], rel="has", node_b=V["n2"], props={"Details": V["v"]}),
        "add_link[no props]": lambda e, V: e["g"].add_link(node_a=V["n"], rel="connects", node_b=V["n2"]),
        "find_matching_nodes": lambda e, V: e["g"].find_matching_nodes(other_graph=e["other"]),
        "merge_nodes": lambda e, V: e["g"].merge_nodes(node_id=V["n"], other_graph=e["other"]),
        "merge_nodes[policy]": lambda e, V: e["g"].merge_nodes(node_id=V["n"], other_graph=e["other"], merge_properties={"Name": "discard", "`.*`": "overwrite"}),
        "get_stitch_nodes": lambda e, V: e["g"].get_stitch_nodes(),
        "check_node_unique": lambda e, V: e["g"].check_node_unique(label="NetworkNode", name=V["name"]),
        "get_graph_diff": lambda e, V: e["g"].get_graph_diff(other_graph=e["other"], label="NetworkNode"),
        "get_graph_property_diff": lambda e, V: e["g"].get_graph_property_diff(other_graph=e["other"], label="NetworkNode"),
        "validate_graph": lambda e, V: e["g"].validate_graph(validate_json=False),
        "validate_graph[json]": lambda e, V: e["g"].validate_graph(validate_json=True),
        "remove_network_node": lambda e, V: e["g"].remove_network_node_with_components_nss_cps_and_links(node_id=V["n"]),
        "find_peer_connection_points": lambda e, V: e["g"].find_peer_connection_points(node_id=V["n"]),
        "importer.import_graph_from_string": lambda e, V: e["imp"].import_graph_from_string(graph_string=GRAPHML.replace("GID", "gid-fixed"), graph_id=V["g2"]),
        "importer.import_graph_from_string_direct": lambda e, V: e["imp"].import_graph_from_string_direct(graph_string=GRAPHML.replace("GID", "gid-fixed")),
        "importer.delete_all_graphs": lambda e, V: e["imp"].delete_all_graphs(),
        "importer.delete_graph": lambda e, V: e["imp"].delete_graph(graph_id=V["g"]),
        "importer.cast_graph": lambda e, V: e["imp"].cast_graph(graph_id=V["g"]),
        "cbm.merge_adm": lambda e, V: e["cbm"].merge_adm(adm=e["adm"]),
        "cbm.unmerge_adm": lambda e, V: e["cbm"].unmerge_adm(graph_id=V["g2"]),
        "cbm.get_delegations": lambda e, V: e["cbm"].get_delegations(node_id=V["n"], adm_id=V["g2"], delegation_type=DelegationType.CAPACITY),
        "cbm.get_matching_nodes_with_components": lambda e, V: e["cbm"].get_matching_nodes_with_components(label="NetworkNode", props={"Site": V["v"], "Type": "Server"}),
        "cbm.get_matching_nodes_with_components[comps]": lambda e, V: e["cbm"].get_matching_nodes_with_components(label="NetworkNode", props={"Site": V["v"]}, comps=comps()),
        "cbm.get_matching_nodes_with_components[comps without model]": lambda e, V: e["cbm"].get_matching_nodes_with_components(
            label="NetworkNode", props={"Site": V["v"]}, comps=comps(((ComponentType.SharedNIC, None), (ComponentType.GPU, "Tesla T4"), (ComponentType.GPU, "Tesla T4")))),
        "cbm.get_matching_nodes_with_components[one comp, no model]": lambda e, V: e["cbm"].get_matching_nodes_with_components(
            label="NetworkNode", props={"Site": V["v"]}, comps=comps(((ComponentType.SharedNIC, None),))),
        "cbm.get_matching_nodes_with_components[empty comps]": lambda e, V: e["cbm"].get_matching_nodes_with_components(
            label="NetworkNode", props={"Site": V["v"]}, comps=comps(())),
        "cbm.get_matching_nodes_with_components[no props]": lambda e, V: e["cbm"].get_matching_nodes_with_components(
            label="NetworkNode", props={}, comps=comps()),
        "cbm.get_intersite_links": lambda e, V: e["cbm"].get_intersite_links(),
        "cbm.get_sites": lambda e, V: e["cbm"].get_sites(),
        "cbm.get_disconnected_sites": lambda e, V: e["cbm"].get_disconnected_sites(),
        "cbm.get_connected_sites": lambda e, V: e["cbm"].get_connected_sites(),
        "cbm.get_facility_ports": lambda e, V: e["cbm"].get_facility_ports(),
        "cbm.snapshot": lambda e, V: e["cbm"].snapshot(),
        "asm.check_node_name": lambda e, V: e["asm"].check_node_name(node_id=V["n"], label="NetworkNode", name=V["name"]),
        "asm.find_node_by_name": lambda e, V: e["asm"].find_node_by_name(node_name=V["name"], label="NetworkNode"),
        "adm.rewrite_delegations": lambda e, V: e["adm"].rewrite_delegations(real_adm_id=V["g2"]),
    }
    # identifier sweeps: the same operations for every class label / relation / special property name
    classes = ("NetworkNode", "Component", "NetworkService", "ConnectionPoint", "Link", "CompositeNode")
    pnames = ("GraphID", "NodeID", "Name", "Class", "Type", "Labels", "StitchNode", "CapacityDelegations")
    for pn in pnames:
        ops["update_nodes_property[%s]" % pn] = lambda e, V, pn=pn: e["g"].update_nodes_property(prop_name=pn, prop_val=V["v"])
        ops["update_node_property[%s]" % pn] = lambda e, V, pn=pn: e["g"].update_node_property(node_id=V["n"], prop_name=pn, prop_val=V["v"])
        ops["unset_node_property[%s]" % pn] = lambda e, V, pn=pn: e["g"].unset_node_property(node_id=V["n"], prop_name=pn)
        ops["update_link_property[%s]" % pn] = lambda e, V, pn=pn: e["g"].update_link_property(node_a=V["n"], node_b=V["n2"], kind="connects", prop_name=pn, prop_val=V["v"])
        ops["update_node_properties[%s]" % pn] = lambda e, V, pn=pn: e["g"].update_node_properties(node_id=V["n"], props={pn: V["v"]})
    for c in classes:
        ops["get_all_nodes_by_class[%s]" % c] = lambda e, V, c=c: e["g"].get_all_nodes_by_class(label=c)
        ops["node_exists[%s]" % c] = lambda e, V, c=c: e["g"].node_exists(node_id=V["n"], label=c)
        ops["check_node_unique[%s]" % c] = lambda e, V, c=c: e["g"].check_node_unique(label=c, name=V["name"])
        ops["add_node[%s]" % c] = lambda e, V, c=c: e["g"].add_node(node_id=V["n"], label=c, props={"Name": V["name"], "Type": V["t"]})
        ops["get_graph_diff[%s]" % c] = lambda e, V, c=c: e["g"].get_graph_diff(other_graph=e["other"], label=c)
        ops["get_graph_property_diff[%s]" % c] = lambda e, V, c=c: e["g"].get_graph_property_diff(other_graph=e["other"], label=c)
        for r in ("has", "connects"):
            ops["get_first_neighbor[%s,%s]" % (r, c)] = lambda e, V, c=c, r=r: e["g"].get_first_neighbor(node_id=V["n"], rel=r, node_label=c)
    for r in ("has", "connects"):
        ops["add_link[%s]" % r] = lambda e, V, r=r: e["g"].add_link(node_a=V["n"], rel=r, node_b=V["n2"], props={"Name": V["name"]})
        ops["get_nodes_on_shortest_path[%s]" % r] = lambda e, V, r=r: e["g"].get_nodes_on_shortest_path(node_a=V["n"], node_z=V["n2"], rel=r)
    return ops


_ENV = {}


def environment(V):
    import fim.graph.neo4j_property_graph as npg
    from fim.graph.resources.neo4j_cbm import Neo4jCBMGraph
    from fim.graph.resources.neo4j_adm import Neo4jADMGraph
    from fim.graph.slices.neo4j_asm import Neo4jASM
    npg.GraphDatabase = FakeGraphDatabase
    npg.Neo4jGraphImporter.index_initialized = True
    d = tempfile.mkdtemp(prefix="vh-neo-")
    imp = npg.Neo4jGraphImporter(url="neo4j://stand-in", user="u", pswd="p", import_host_dir=d, import_dir=d)
    drv = imp.driver
    env = {"imp": imp, "drv": drv, "dir": d,
           "g": npg.Neo4jPropertyGraph(graph_id=V["g"], importer=imp),
           "other": npg.Neo4jPropertyGraph(graph_id=V["g2"], importer=imp),
           "cbm": Neo4jCBMGraph(graph_id=V["g"], importer=imp),
           "adm": Neo4jADMGraph(graph_id=V["g2"], importer=imp),
           "asm": Neo4jASM(graph_id=V["g"], importer=imp)}
    return env


def run_script(script):
    """script: [{op, persona, run}] - each entry executed in a fresh environment; the line carries every statement captured."""
    import fim.graph.neo4j_property_graph as npg
    ops = catalogue()
    steps = []
    buf = io.StringIO()
    for o in script:
        V = VALUE_SETS[o["run"]]
        out = "ok"
        stmts = []
        with contextlib.redirect_stdout(buf), contextlib.redirect_stderr(buf):
            env = environment(V)
            env["drv"].persona = o["persona"]
            env["drv"].log.clear()
            npg.time.sleep = lambda s: None
            try:
                ops[o["op"]](env, V)
            except Exception as e:                                # noqa: outcome class only; the statements were captured anyway
                out = type(e).__name__
            stmts = [{"q": s["q"], "params": s["params"]} for s in env["drv"].log]
            shutil.rmtree(env["dir"], ignore_errors=True)
        steps.append({"op": o, "key": o["op"] + "/" + o["persona"], "out": out, "stmts": stmts, "state": {}})
    return {"steps": steps}


def op_names():
    return sorted(catalogue())
