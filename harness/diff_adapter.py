"""Adapter for sliver comparison (C17): abstract sliver trees <-> real NodeSliver / ComponentSliver / NetworkServiceSliver /
InterfaceSliver objects; `new` is a deep copy of `old` that is then edited through the sliver API."""
import copy

from fim.slivers.network_node import NodeSliver, NodeType
from fim.slivers.attached_components import AttachedComponentsInfo, ComponentSliver, ComponentType
from fim.slivers.network_service import NetworkServiceSliver, NetworkServiceInfo, ServiceType, NSLayer
from fim.slivers.interface_info import InterfaceSliver, InterfaceInfo, InterfaceType
from fim.slivers.component_catalog import ComponentCatalog
from fim.slivers.capacities_labels import Capacities, Labels
from fim.slivers.json_data import UserData
from fim.slivers.topology_diff import WhatsModifiedFlag

LAB = {"L1": dict(vlan="100"), "L2": dict(vlan="200"), "L3": dict(local_name="x")}
CAP = {"C1": dict(core=1), "C2": dict(core=2, ram=4)}
UD = {"U1": {"k": 1, "l": ["a"]}, "U2": {"k": 2}}
UD_TEXT = {"U1s": '{"l":["a"],   "k":1}'}                  # the value U1 as JSON text in another layout


def set_p(sl, which, v):
    if which == "labels":
        sl.set_labels(Labels(**LAB[v]) if v else None)
    elif which == "caps":
        sl.set_capacities(Capacities(**CAP[v]) if v else None)
    else:
        if v in UD_TEXT:
            sl.set_user_data(UserData(UD_TEXT[v]))
        else:
            sl.set_user_data(UserData(copy.deepcopy(UD[v])) if v else None)     # a NEW, equal-valued object every time


def get_p(sl):
    def name(val, table, conv):
        if val is None:
            return ""
        for k, kw in table.items():
            if conv(kw) == conv(val):
                return k
        return "?"
    return {"labels": name(sl.get_labels(), LAB, lambda x: Labels(**x).to_dict() if isinstance(x, dict) else x.to_dict()),
            "caps": name(sl.get_capacities(), CAP, lambda x: Capacities(**x).to_dict() if isinstance(x, dict) else x.to_dict()),
            "ud": ("U1s" if sl.get_user_data() is not None and sl.get_user_data().json == UD_TEXT["U1s"]
                   else name(sl.get_user_data(), UD, lambda x: x if isinstance(x, dict) else x.data))}


def apply_p(sl, p):
    for w in ("labels", "caps", "ud"):
        if p[w]:
            set_p(sl, w, p[w])


def mk_comp(name, c):
    if c["smart"]:
        cs = ComponentCatalog().generate_component(name=name, ctype=ComponentType.SmartNIC, model="ConnectX-6")
        ns = list(cs.network_service_info.network_services.values())[0]
        for isl in ns.interface_info.interfaces.values():
            isl.set_labels(None)
            isl.set_capacities(None)
        for iname, i in (c["ifs"] or {}).items():
            isl = ns.interface_info.get_interface(name + "-" + iname)
            apply_p(isl, i["p"])
            for sname, s in (i["subs"] or {}).items():
                add_sub(isl, sname, s["p"])
    else:
        cs = ComponentCatalog().generate_component(name=name, ctype=ComponentType.GPU, model="Tesla T4")
    cs.node_id = "id-" + name
    apply_p(cs, c["p"])
    return cs


def add_sub(isl, sname, p):
    sub = InterfaceSliver()
    sub.set_name(sname)
    sub.set_type(InterfaceType.SubInterface)
    sub.node_id = "id-" + isl.get_name() + "-" + sname
    apply_p(sub, p)
    if isl.interface_info is None:
        isl.interface_info = InterfaceInfo()
    isl.interface_info.add_interface(sub)


def mk_svc(name, s):
    ns = NetworkServiceSliver()
    ns.set_name(name)
    ns.set_type(ServiceType.OVS)
    ns.set_layer(NSLayer.L2)
    ns.node_id = "id-" + name
    apply_p(ns, s["p"])
    return ns


def build(tree):
    n = NodeSliver()
    n.set_name("node1")
    n.set_type(NodeType.VM)
    n.set_site("S1")
    n.node_id = "id-node1"
    apply_p(n, tree["p"])
    if tree["comps"]:
        n.attached_components_info = AttachedComponentsInfo()
        for name, c in tree["comps"].items():
            n.attached_components_info.add_device(mk_comp(name, c))
    if tree["svcs"]:
        n.network_service_info = NetworkServiceInfo()
        for name, s in tree["svcs"].items():
            n.network_service_info.add_network_service(mk_svc(name, s))
    return n


def project(n):
    comps = {}
    if n.attached_components_info is not None:
        for name, cs in n.attached_components_info.devices.items():
            smart = cs.get_type() == ComponentType.SmartNIC
            ifs = {}
            if smart:
                ns = list(cs.network_service_info.network_services.values())[0]
                for iname, isl in ns.interface_info.interfaces.items():
                    subs = {}
                    if isl.interface_info is not None:
                        subs = {sn: {"p": get_p(s)} for sn, s in isl.interface_info.interfaces.items()}
                    ifs[iname[len(name) + 1:]] = {"p": get_p(isl), "subs": subs}
            comps[name] = {"p": get_p(cs), "smart": smart, "ifs": ifs}
    svcs = {}
    if n.network_service_info is not None:
        svcs = {name: {"p": get_p(s)} for name, s in n.network_service_info.network_services.items()}
    return {"p": get_p(n), "comps": comps, "svcs": svcs}


def flags(f):
    return sorted(x.name for x in WhatsModifiedFlag if x != WhatsModifiedFlag.NONE and x in f)


def names(s, strip=""):
    return sorted(x.get_name()[len(strip):] if strip and x.get_name().startswith(strip) else x.get_name() for x in s)


def node_diff(a, b):
    d = a.diff(b)
    if d is None:
        return None
    return {"self": flags(d.modified.nodes[0][1]) if d.modified.nodes else [],
            "comps_added": names(d.added.components), "comps_removed": names(d.removed.components),
            "comps_modified": {c.get_name(): flags(f) for c, f in d.modified.components},
            "svcs_added": names(d.added.services), "svcs_removed": names(d.removed.services),
            "svcs_modified": {s.get_name(): flags(f) for s, f in d.modified.services},
            "other": bool(d.added.nodes or d.removed.nodes or d.added.interfaces or d.removed.interfaces or d.modified.interfaces),
            "dups": len(d.modified.nodes) > 1 or len({c.get_name() for c, _ in d.modified.components}) != len(d.modified.components)}


EMPTY_NODE = {"self": [], "comps_added": [], "comps_removed": [], "comps_modified": {}, "svcs_added": [], "svcs_removed": [],
              "svcs_modified": {}, "other": False, "dups": False}


def svc_diff(a, b, strip):
    d = a.diff(b)
    if d is None:
        return {"added": [], "removed": [], "modified": {}}
    return {"added": names(d.added.interfaces, strip), "removed": names(d.removed.interfaces, strip),
            "modified": {(i.get_name()[len(strip):] if i.get_name().startswith(strip) else i.get_name()): flags(f)
                         for i, f in d.modified.interfaces}}


def if_diff(a, b):
    d = a.diff(b)
    if d is None:
        return {"self": [], "added": [], "removed": [], "modified": {}}
    return {"self": flags(d.modified.services[0][1]) if d.modified.services else [],
            "added": names(d.added.interfaces), "removed": names(d.removed.interfaces),
            "modified": {i.get_name(): flags(f) for i, f in d.modified.interfaces}}


def comp_svc(n, c):
    cs = n.attached_components_info.get_device(c)
    return list(cs.network_service_info.network_services.values())[0]


def run_script(script):
    old = new = None
    steps = []
    for o in script:
        op = o["op"]
        out, res = "ok", {"k": "none"}
        try:
            if op == "Start":
                old = build(o["base"])
                new = copy.deepcopy(old)
            elif op == "AddComp":
                if new.attached_components_info is None:
                    new.attached_components_info = AttachedComponentsInfo()
                if new.attached_components_info.get_device(o["name"]) is None:
                    new.attached_components_info.add_device(mk_comp(o["name"], {"p": {"labels": "", "caps": "", "ud": ""}, "smart": o["smart"],
                                                                                "ifs": {}}))
            elif op == "RemComp":
                if new.attached_components_info is not None:
                    new.attached_components_info.remove_device(o["name"])
            elif op == "AddSvc":
                if new.network_service_info is None:
                    new.network_service_info = NetworkServiceInfo()
                new.network_service_info.add_network_service(mk_svc(o["name"], {"p": {"labels": "", "caps": "", "ud": ""}}))
            elif op == "RemSvc":
                if new.network_service_info is not None:
                    new.network_service_info.remove_network_service(o["name"])
            elif op in ("AddSub", "RemSub", "SetIf", "SetSub"):
                cs = new.attached_components_info.get_device(o["c"]) if new.attached_components_info is not None else None
                isl = None
                if cs is not None and cs.network_service_info is not None:
                    isl = comp_svc(new, o["c"]).interface_info.get_interface(o["c"] + "-" + o["i"])
                if isl is not None:
                    if op == "AddSub":
                        add_sub(isl, o["name"], {"labels": "", "caps": "", "ud": ""})
                    elif op == "RemSub":
                        if isl.interface_info is not None:
                            isl.interface_info.remove_interface(o["name"])
                    elif op == "SetIf":
                        set_p(isl, o["which"], o["v"])
                    elif isl.interface_info is not None and isl.interface_info.get_interface(o["name"]) is not None:
                        set_p(isl.interface_info.get_interface(o["name"]), o["which"], o["v"])
            elif op == "SetNode":
                set_p(new, o["which"], o["v"])
            elif op == "SetComp":
                cs = new.attached_components_info.get_device(o["c"]) if new.attached_components_info is not None else None
                if cs is not None:
                    set_p(cs, o["which"], o["v"])
            elif op == "SetSvc":
                s = new.network_service_info.get_network_service(o["s"]) if new.network_service_info is not None else None
                if s is not None:
                    set_p(s, o["which"], o["v"])
            elif op == "DiffNode":
                f, b = node_diff(old, new), node_diff(new, old)
                res = {"k": "nodediff", "fwd": f or EMPTY_NODE, "bwd": b or EMPTY_NODE, "fwd_none": f is None, "bwd_none": b is None}
            elif op == "DiffCompService":
                try:
                    a, b = comp_svc(old, o["c"]), comp_svc(new, o["c"])
                except Exception:  # noqa: not applicable in this state
                    out = "skip"
                else:
                    res = {"k": "svcdiff", "fwd": svc_diff(a, b, o["c"] + "-"), "bwd": svc_diff(b, a, o["c"] + "-")}
            elif op == "DiffInterface":
                try:
                    a = comp_svc(old, o["c"]).interface_info.get_interface(o["c"] + "-" + o["i"])
                    b = comp_svc(new, o["c"]).interface_info.get_interface(o["c"] + "-" + o["i"])
                    assert a is not None and b is not None
                except Exception:  # noqa
                    out = "skip"
                else:
                    res = {"k": "ifdiff", "fwd": if_diff(a, b), "bwd": if_diff(b, a)}
            else:
                raise ValueError(op)
        except Exception as e:  # noqa
            out, res = type(e).__name__, {"k": "none"}
        steps.append({"op": o, "out": out, "res": res, "state": {"old": project(old), "new": project(new)}})
    return {"steps": steps}
