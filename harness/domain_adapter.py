"""Adapter for value-domain validation on every construction path (C16).

One 'current' stored value per category (labels / tags / name / boot script / JSON blob), reached through the plain
classes and through model elements of a real topology; every op reports accept ('ok') or reject ('rejected', any exception)
and the adapter projects what is stored afterwards (read back through the public getters, which decode the stored text)."""
import contextlib
import io
import json

from fim.user.topology import ExperimentTopology
from fim.user.component import ComponentModelType
from fim.slivers.capacities_labels import Labels
from fim.slivers.tags import Tags
from fim.slivers.json_data import MeasurementData, UserData, LayoutData
from fim.slivers.network_node import NodeSliver
from fim.slivers.attached_components import ComponentSliver
from fim.slivers.network_service import NetworkServiceSliver, ServiceType
from fim.slivers.interface_info import InterfaceSliver, InterfaceType
from fim.slivers.network_link import NetworkLinkSliver, LinkType

SLIVER = {"node": NodeSliver, "comp": ComponentSliver, "svc": NetworkServiceSliver, "if": InterfaceSliver, "link": NetworkLinkSliver}
BLOB = {"mf_data": MeasurementData, "user_data": UserData, "layout_data": LayoutData}


def kw_of(asg):
    out = {}
    for f, v in (asg or {}).items():
        items = list(v["items"] or [])
        out[f] = items[0] if v["form"] == "scalar" else items
    return out


def lab_state(lab):
    out = {}
    if lab is None:
        return out
    for f, v in lab.__dict__.items():
        if v is None:
            continue
        out[f] = {"form": "list", "items": list(v)} if isinstance(v, list) else {"form": "scalar", "items": [v]}
    return out


def blob_text(n, valid, style="canon"):
    """JSON text of exactly n characters; the same value can be written in several ways - with the separators
    json.dumps would use ('canon'), without any blank ('compact'), with characters json.dumps would escape ('nonascii')"""
    if not valid:
        return "x" * n
    if n < 9:
        return "{}" if n == 2 else "[" + "1" * (n - 2) + "]"
    if style == "compact":
        return '{"k":"' + "x" * (n - 8) + '"}'
    if style == "nonascii":
        return '{"k": "' + "\u00e9" * (n - 9) + '"}'
    return '{"k": "' + "x" * (n - 9) + '"}'


def blob_obj(n, valid):
    if not valid:
        return {"k": {1, 2}}                                  # not JSON-serialisable
    if n < 9:
        return {} if n == 2 else int("1" * n)
    return {"k": "x" * (n - 9)}


class DomainRunner:
    def __init__(self):
        self.reset()

    def reset(self):
        self.t = ExperimentTopology()
        self.node = self.t.add_node(name="host", site="S1")
        self.comp = self.node.add_component(name="nic", model_type=ComponentModelType.SmartNIC_ConnectX_6)
        self.ifs = list(self.comp.interfaces.values())
        self.svc = self.t.add_network_service(name="svc0", nstype=ServiceType.L2Bridge, interfaces=[])
        self.lab = None
        self.tags = []
        self.name = {"kind": "", "s": ""}
        self.boot = 0
        self.blob = {"cls": "", "len": 0}
        self.named = {}
        self.n_created = 0

    # ---------------------------------------------------------------------------------------------- helpers
    def sync_labels_in(self):
        el = self.ifs[0]
        if self.lab is not None and lab_state(self.lab):
            el.set_property("labels", self.lab)
        elif el.get_property("labels") is not None:
            el.unset_property("labels")

    def existing(self, kind):
        """an element of the kind whose name can be changed (created on first use)"""
        if kind not in self.named:
            self.n_created += 1
            nm = "el%d" % self.n_created
            self.named[kind] = self.create(kind, nm)
        return self.named[kind]

    def create(self, kind, name):
        t = self.t
        # the candidate name may have been used by an earlier step of the script: names are unique per scope
        try:
            if kind == "node" and name in t.nodes:
                t.remove_node(name=name)
            elif kind == "comp" and name in self.node.components:
                self.node.remove_component(name=name)
            elif kind == "svc" and name in t.network_services:
                t.remove_network_service(name=name)
            elif kind == "if" and name in self.svc.interfaces:
                self.svc.remove_interface(name=name)
            elif kind == "link" and name in t.links:
                t.remove_link(name=name)
        except Exception:                                         # noqa: best effort, the creation below reports
            pass
        for k in [k for k, e in self.named.items() if k == kind and e.name == name]:
            del self.named[k]
        if kind == "node":
            return t.add_node(name=name, site="S1")
        if kind == "comp":
            return self.node.add_component(name=name, model_type=ComponentModelType.GPU_Tesla_T4)
        if kind == "svc":
            return t.add_network_service(name=name, nstype=ServiceType.L2Bridge, interfaces=[])
        if kind == "if":
            return self.svc.add_interface(name=name, itype=InterfaceType.TrunkPort)
        n1 = t.add_node(name="la%d" % self.n_created, site="S1")
        n2 = t.add_node(name="lb%d" % self.n_created, site="S1")
        self.n_created += 1
        i1 = list(n1.add_component(name="nic", model_type=ComponentModelType.SharedNIC_ConnectX_6).interfaces.values())[0]
        i2 = list(n2.add_component(name="nic", model_type=ComponentModelType.SharedNIC_ConnectX_6).interfaces.values())[0]
        return t.add_link(name=name, ltype=LinkType.Patch, interfaces=[i1, i2])

    def apply(self, o):
        op = o["op"]
        if op == "Reset":
            self.reset()
        elif op == "LNew":
            self.lab = Labels(**kw_of(o["asg"]))
        elif op == "LUpdate":
            self.lab = Labels.update(self.lab if self.lab is not None else Labels(), **kw_of(o["asg"]))
        elif op == "LFromJson":
            self.lab = Labels.from_json(json.dumps(kw_of(o["asg"])))
        elif op in ("ElemSetLabels", "ElemUpdateLabels"):
            self.sync_labels_in()
            el = self.ifs[0]
            try:
                if op == "ElemSetLabels":
                    el.labels = Labels(**kw_of(o["asg"]))
                else:
                    el.update_labels(**kw_of(o["asg"]))
            finally:
                self.lab = el.get_property("labels")
        elif op == "LRecode":
            if self.lab is not None and lab_state(self.lab):
                back = Labels.from_json(self.lab.to_json())
                if lab_state(back) != lab_state(self.lab):
                    raise RuntimeError("decoded labels differ from the stored ones")
        elif op == "TNew":
            items = list(o["items"] or [])
            self.tags = list(Tags(items).tags if len(items) != 1 else Tags(*items).tags)
        elif op == "TFromJson":
            tg = Tags.from_json(json.dumps(list(o["items"] or [])))
            self.tags = list(tg.tags) if tg is not None else []
        elif op == "ElemSetTags":
            # the 'current' value may have come from another path (plain constructor, decoding): a refused assignment
            # changes it only if what the element holds changed
            tg0 = self.node.get_property("tags")
            before = list(tg0.tags) if tg0 is not None else []
            ok = False
            try:
                self.node.set_property("tags", Tags(*list(o["items"] or [])))
                ok = True
            finally:
                tg = self.node.get_property("tags")
                now = list(tg.tags) if tg is not None else []
                if ok or now != before:
                    self.tags = now
        elif op == "SetName":
            sl = SLIVER[o["kind"]]()
            sl.set_name(o["name"])
            self.name = {"kind": o["kind"], "s": sl.get_name()}
        elif op == "ElemCreate":
            el = self.create(o["kind"], o["name"])
            self.name = {"kind": o["kind"], "s": el.get_property("name")}
            self.named[o["kind"]] = el
        elif op in ("ElemSetName", "ElemRename"):
            el = self.existing(o["kind"])
            try:
                if op == "ElemSetName":
                    el.name = o["name"]
                else:
                    el.rename(o["name"])
            finally:
                _, props = self.t.graph_model.get_node_properties(node_id=el.node_id)
                stored = props.get("Name")
                if stored == o["name"]:
                    self.name = {"kind": o["kind"], "s": stored}
                el._name = stored
        elif op == "SetBoot":
            sl = NodeSliver()
            sl.set_boot_script("x" * o["len"])
            self.boot = len(sl.get_boot_script())
        elif op == "ElemSetBoot":
            b0 = self.node.get_property("boot_script")
            ok = False
            try:
                self.node.set_property("boot_script", "x" * o["len"])
                ok = True
            finally:
                b = self.node.get_property("boot_script")
                if ok or b != b0:                       # (as for tags: a refused call changes the current value only if the element changed)
                    self.boot = len(b) if b is not None else 0
        elif op == "BlobText":
            b = BLOB[o["cls"]](blob_text(o["len"], o["valid"], o.get("style", "canon")))
            b.data                                                       # what was accepted decodes again
            self.blob = {"cls": o["cls"], "len": len(b.json)}
        elif op == "BlobObject":
            b = BLOB[o["cls"]](blob_obj(o["len"], o["valid"]))
            self.blob = {"cls": o["cls"], "len": len(b.json)}
        elif op == "ElemSetBlob":
            stored = False
            try:
                style = o.get("style", "object")
                self.node.set_property(o["cls"], BLOB[o["cls"]](blob_obj(o["len"], o["valid"]) if style == "object"
                                                              else blob_text(o["len"], o["valid"], style)))
                stored = True
            finally:
                if stored:
                    b = self.node.get_property(o["cls"])                 # decodes the stored text again
                    self.blob = {"cls": o["cls"], "len": len(b.json)}
        else:
            raise ValueError("unknown op " + op)

    def state(self):
        return {"lab": lab_state(self.lab), "tags": list(self.tags), "name": dict(self.name), "boot": self.boot, "blob": dict(self.blob)}


def run_script(script):
    r = DomainRunner()
    steps = []
    buf = io.StringIO()
    for o in script:
        out, info = "ok", ""
        try:
            with contextlib.redirect_stdout(buf), contextlib.redirect_stderr(buf):
                r.apply(o)
        except Exception as e:                                    # noqa: any exception is a rejection
            out, info = "rejected", type(e).__name__
        steps.append({"op": o, "out": out, "res": {"k": "info", "exc": info}, "state": r.state()})
    return {"steps": steps}
