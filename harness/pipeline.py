"""Generic spec<->code pipeline shared by all layers.

  gen (TLC, Gen_X.cfg)  ->  scripts  ->  exec on the real code (adapter)  ->  traces  ->  validate (TLC, Trace_X)

Scripts also come from seeded random drivers (larger alphabets, longer histories).  Python never computes an
expected value: the verdict for every trace line is produced by a TLA+ operator evaluated by TLC.
"""
import json
import multiprocessing as mp
from concurrent.futures import ProcessPoolExecutor
from concurrent.futures.process import BrokenProcessPool
import os
import shutil
import tempfile
import time

from . import tlc


def jkey(o):
    return json.dumps(o, sort_keys=True)


def scripts_from_gen(printed, max_obs_per_script=400):
    """Gen lines {path, op, chg} -> straight-line scripts covering every logged transition.

    For a source state (identified by the shortest op path TLC found for it):
      * all logged operations that leave the state unchanged (observers, failing mutators) are chained into
        'base' scripts after the path (they do not disturb each other if the implementation is right; if it is
        wrong the validator sees the change at that very step);
      * every state-changing operation gets its own script path+[op] unless it is a tree edge already covered as
        a prefix of a deeper script.
    """
    by_path = {}
    order = []
    for line in printed:
        if not isinstance(line, dict) or "path" not in line:
            continue
        k = jkey(line["path"])
        if k not in by_path:
            by_path[k] = {"path": line["path"], "same": [], "chg": []}
            order.append(k)
        (by_path[k]["chg"] if line["chg"] else by_path[k]["same"]).append(line["op"])
    scripts = []
    covered_prefix = set(order)
    n_trans = 0
    for k in order:
        e = by_path[k]
        n_trans += len(e["same"]) + len(e["chg"])
        same = e["same"]
        for i in range(0, max(len(same), 1), max_obs_per_script):
            scripts.append(list(e["path"]) + same[i:i + max_obs_per_script])
        for op in e["chg"]:
            full = list(e["path"]) + [op]
            if jkey(full) in covered_prefix:
                continue
            scripts.append(full)
    return scripts, n_trans, len(order)


# ------------------------------------------------------------------------------------------------ execution
_EXEC = None


def _exec_init(modname, funcname):
    global _EXEC
    import importlib
    _EXEC = getattr(importlib.import_module(modname), funcname)


def _exec_one(job):
    tid, script, variant = job
    t = _EXEC(script, **variant)
    t["tid"] = tid
    return t


def exec_scripts(modname, funcname, scripts, variants, procs=16):
    """Run every script under every variant (dict of kwargs for the adapter's run function) in worker processes."""
    jobs = []
    tid = 0
    for s in scripts:
        for v in variants:
            tid += 1
            jobs.append((tid, s, v))
    if procs <= 1 or len(jobs) < 8:
        _exec_init(modname, funcname)
        return [_exec_one(j) for j in jobs]
    ctx = mp.get_context("fork")
    # (an executor, not mp.Pool: if a worker process is killed - e.g. by the OOM killer - this raises instead of waiting forever)
    try:
        with ProcessPoolExecutor(procs, mp_context=ctx, initializer=_exec_init, initargs=(modname, funcname)) as ex:
            return list(ex.map(_exec_one, jobs, chunksize=max(1, len(jobs) // (procs * 8))))
    except BrokenProcessPool as e:
        raise tlc.TLCError("a worker process executing scripts died: " + str(e))


# ------------------------------------------------------------------------------------------------ validation
def _validate_batch(args):
    """One TLC run over a batch.  If TLC cannot EVALUATE the batch (an observed state or result outside what the
    specification's operators are defined on - only code that differs from the verified tree produces such a thing),
    the traces are re-run one by one and every trace TLC still chokes on gets a total verdict of its own: the
    observation is rejected, not the run aborted."""
    module, cfg, batch, workers, extra_env = args
    try:
        return _validate_batch_once(args)
    except tlc.TLCError as e:
        if len(batch) == 1 or "timed out" in str(e):
            raise
    printed, gen, dist, wall = [], 0, 0, 0.0
    for t in batch:
        try:
            p, g, d_, w = _validate_batch_once((module, cfg, [t], 1, extra_env))
            printed += p
            gen, dist, wall = gen + g, dist + d_, wall + w
        except tlc.TLCError as e:
            if "timed out" in str(e):
                raise
            msg = " ".join(str(e).split())[:160]
            printed.append({"verdict": "REJECT", "tid": t["tid"], "line": len(t["steps"]),
                            "clause": "the observations of this trace cannot be evaluated by the specification"})
            printed.append({"verdict": "DONE", "tid": t["tid"], "lines": len(t["steps"]), "bad": 1, "note": msg})
    return printed, gen, dist, wall


def _validate_batch_once(args):
    module, cfg, batch, workers, extra_env = args
    d = tempfile.mkdtemp(prefix="vh-trace-")
    try:
        f = os.path.join(d, "batch.json")
        with open(f, "w") as fh:
            json.dump({"traces": batch}, fh)
        env = {"TRACE_FILE": f}
        env.update(extra_env or {})
        r = tlc.run_tlc(module, cfg, workers=workers, env=env, timeout=7200, heap_gb=3)
        return r.printed, r.generated, r.distinct, r.wall
    finally:
        shutil.rmtree(d, ignore_errors=True)


def validate_traces(module, cfg, traces, batch_lines=20000, jvms=6, workers_per_jvm=3, extra_env=None):
    """Validate traces with the Trace_X specification.  Returns (verdicts, stats).

    verdicts: {tid: {"lines": n, "bad": k, "rejects": [(line, clause)...]}} ; a trace without a DONE verdict is a
    machinery failure (TLCError).
    """
    if not traces:
        return {}, {"batches": 0, "tlc_states": 0, "tlc_wall_s": 0}
    batches, curb, n = [], [], 0
    for t in traces:
        curb.append(t)
        n += len(t["steps"]) + 1
        if n >= batch_lines:
            batches.append(curb)
            curb, n = [], 0
    if curb:
        batches.append(curb)
    jobs = [(module, cfg, b, workers_per_jvm, extra_env) for b in batches]
    t0 = time.time()
    if len(jobs) == 1:
        outs = [_validate_batch(jobs[0])]
    else:
        ctx = mp.get_context("fork")
        try:
            with ProcessPoolExecutor(min(jvms, len(jobs)), mp_context=ctx) as ex:
                outs = list(ex.map(_validate_batch, jobs, chunksize=1))
        except BrokenProcessPool as e:
            raise tlc.TLCError("a worker process running TLC died: " + str(e))
    verdicts = {}
    states = distinct = 0
    for printed, gen, dist, _w in outs:
        states += gen
        distinct += dist
        for p in printed:
            if not isinstance(p, dict) or "verdict" not in p:
                continue
            v = verdicts.setdefault(p["tid"], {"lines": None, "bad": 0, "rejects": []})
            if p["verdict"] == "REJECT":
                v["rejects"].append((p["line"], p["clause"]))
            elif p["verdict"] == "DONE":
                v["lines"] = p["lines"]
                v["bad"] = p["bad"]
    missing = [t["tid"] for t in traces if t["steps"] and (t["tid"] not in verdicts or verdicts[t["tid"]]["lines"] is None)]
    if missing:
        raise tlc.TLCError(f"{len(missing)} traces without a verdict (first tids {missing[:5]}) in {module}")
    for t in traces:
        if not t["steps"]:
            verdicts[t["tid"]] = {"lines": 0, "bad": 0, "rejects": []}
    return verdicts, {"tlc_states": states, "tlc_distinct": distinct, "wall_s": round(time.time() - t0, 2),
                      "batches": len(batches)}
