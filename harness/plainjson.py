"""Decoding of stored JSON-valued properties with the plain json module only: the projections of the adapters must not
depend on the library's own decoders (a defect in a decoder - or a cache inside it - would otherwise be invisible)."""
import json


def delegation_entries(text):
    """stored delegation text -> {delegation id: details dict | None}; '' / missing -> {} ; raises ValueError if not JSON"""
    if text is None or text == "":
        return {}
    d = json.loads(text)
    if not isinstance(d, dict):
        raise ValueError("delegations are not a JSON object")
    out = {}
    for did, ent in d.items():
        ents = ent if isinstance(ent, list) else [ent]
        dets = []
        for e in ents:
            if isinstance(e, dict):
                dets.append(e.get("capacities") if "capacities" in e else e.get("labels"))
            else:
                dets.append(e)
        out[did] = dets[0] if len(dets) == 1 else dets
    return out


def adm_graph_ids(text):
    if text is None or text == "":
        return []
    d = json.loads(text)
    return list(d.get("adm_graph_ids") or []) if isinstance(d, dict) else ["?not-an-object"]
