"""C01 - model serialization round trip is lossless and re-importable (raw property-graph part)."""
import random

from ..core import Report
from . import store_common as sc

CLASSES = ["plain", "quote", "markup", "nonascii", "lead", "trail", "empty", "blank", "jsontext", "nl", "cr", "crlf",
           "numeric", "boolish"]


def variants(seed, n_vseeds):
    vs = []
    for be in ("shared", "disjoint"):
        for fmt in ("graphml", "json"):
            for k in range(n_vseeds):
                vs.append({"backend": be, "fmt": fmt, "vseed": seed + k})
    return vs


def value(rng):
    k = rng.random()
    if k < 0.75:
        return "s:@" + rng.choice(CLASSES)
    if k < 0.9:
        return rng.choice(["i:0", "i:5", "i:-3", "i:1099511627776"])
    return rng.choice(["b:true", "b:false", "f:1.5"])


def raw_graph_script(rng, n_nodes, n_rounds):
    """Build a raw property graph with adversarial values, then serialise / import through all entry points."""
    ids = ["n%d" % i for i in range(n_nodes)]
    pn = ["p", "q", "Name", "Type", "weird key"]
    s = []
    for i in ids:
        props = {p: value(rng) for p in rng.sample(pn, rng.choice([0, 1, 2, 3]))}
        s.append({"op": "AddNode", "g": "G", "n": i, "cls": rng.choice(["K1", "K2"]), "props": props})
    for i in range(n_nodes):
        for j in range(i, n_nodes):
            if rng.random() < (0.45 if i != j else 0.1):
                props = {p: value(rng) for p in rng.sample(pn, rng.choice([0, 0, 1, 2]))}
                s.append({"op": "AddLink", "g": "G", "a": ids[i], "b": ids[j], "rel": rng.choice(["r1", "r2"]), "props": props})
    # something else in the store whose internal ids collide with the keys inside the document
    s.append({"op": "AddNode", "g": "other", "n": "n0", "cls": "K1", "props": {"p": "s:@plain"}})
    src = "G"
    for k in range(n_rounds):
        s.append({"op": "ExportDoc", "g": src})
        entry = rng.choice(["string", "file", "string_direct", "file_direct"])
        tgt = rng.choice(["H1", "H2", "G"])
        real_tgt = tgt if entry in ("string", "file") else src
        # history: the graph the import lands on changed after the text was written - whatever the entry point, the
        # import replaces what is stored under that id with the content of the text
        if rng.random() < 0.4:
            for _ in range(rng.choice([1, 2])):
                s.append(rng.choice([
                    {"op": "AddNode", "g": real_tgt, "n": "late%d" % k, "cls": "K1", "props": {"p": value(rng)}},
                    {"op": "DeleteNode", "g": real_tgt, "n": rng.choice(ids)},
                    {"op": "UpdateNodeProp", "g": real_tgt, "n": rng.choice(ids), "p": "p", "v": value(rng)}]))
        s.append({"op": "Import", "entry": entry, "h": tgt})
        s.append({"op": "Validate", "g": real_tgt})
        s.append({"op": "ExportDoc", "g": real_tgt})     # serialising the copy again gives the same content
        if rng.random() < 0.5:
            s.append({"op": "AddNode", "g": "other", "n": "x%d" % k, "cls": "K2", "props": {}})
        # history: the target id was used before (deleted, or merely asked about) - the re-import must still take place
        if rng.random() < 0.35 and entry in ("string", "file") and tgt != src:
            s.append({"op": "ExportDoc", "g": src})
            s.append({"op": rng.choice(["DeleteGraph", "DeleteGraph", "GraphExists"]), "g": tgt})
            s.append({"op": "Import", "entry": rng.choice(["string", "file"]), "h": tgt})
            s.append({"op": "ExportDoc", "g": tgt})
        src = real_tgt
    s.append({"op": "GetNodeProps", "g": "G", "n": ids[0]})
    return s


def run(tier, seed):
    rep = Report("C01", tier, seed)
    quick = tier == "quick"
    # design level: Export/Import/Clone laws of the reference model (shared with C04), 3 graph ids
    sc.model_check(rep, "MC_FimStore profile=graphs seed=pair",
                   sc.consts(["g1", "g2", "g3"], ["a", "b"], depth=3 if quick else 4, queries=False, profile="graphs", seed="pair"))
    rng = random.Random(seed)
    scripts = [raw_graph_script(rng, rng.choice([1, 2, 3, 4]), 3) for _ in range(60 if quick else 800)]
    # one single-property graph per value class, so that every class is certainly exercised alone
    for c in CLASSES:
        scripts.append([{"op": "AddNode", "g": "G", "n": "a", "cls": "K1", "props": {"p": "s:@" + c}},
                        {"op": "AddNode", "g": "G", "n": "b", "cls": "K2", "props": {}},
                        {"op": "AddLink", "g": "G", "a": "a", "b": "b", "rel": "r1", "props": {"p": "s:@" + c}},
                        {"op": "ExportDoc", "g": "G"}, {"op": "Import", "entry": "string", "h": "H"},
                        {"op": "Validate", "g": "H"}, {"op": "ExportDoc", "g": "H"},
                        {"op": "Import", "entry": "file_direct", "h": ""}, {"op": "ExportDoc", "g": "H"}])
    sc.run_and_validate(rep, scripts, variants(seed, 1 if quick else 3), "raw property graphs x value classes x entry points")
    rep.extra["value_classes"] = CLASSES
    return rep
