"""C02 - sliver <-> graph / dictionary / JSON conversion preserves every settable field; set/get/unset on model elements."""
import random

from ..core import Report
from . import value_common as vc

MC = """SPECIFICATION Spec
CONSTANTS
  Mode = "{Mode}"
  MaxDepth = {MaxDepth}
  Wide = {Wide}
  Focus = {Focus}
VIEW View
INVARIANT LawsHold
PROPERTY Frame
CHECK_DEADLOCK FALSE
"""
GEN = """SPECIFICATION Spec
CONSTANTS
  Mode = "{Mode}"
  MaxDepth = {MaxDepth}
  Wide = {Wide}
  Focus = {Focus}
VIEW View
ACTION_CONSTRAINT LogStep
CHECK_DEADLOCK FALSE
"""


def run(tier, seed):
    rep = Report("C02", tier, seed)
    quick = tier == "quick"
    wide = "FALSE" if quick else "TRUE"
    for mode, depth, focus in (("convert", 3, "FALSE"), ("props", 1, "FALSE")) + (() if quick else (("props", 2, "TRUE"),)):
        c = {"Mode": mode, "MaxDepth": depth, "Wide": wide, "Focus": focus}
        rep.add_mc("MC_FimSliverConv %s depth %d%s" % (mode, depth, " (focus)" if focus == "TRUE" else ""),
                   vc.run_tlc_cfg("MC_FimSliverConv", MC, c, workers=16, dfs=True), c)      # in-memory queue: TLC 1.8's disk
        # state queue fails ("fcnRcd is null" in StatePoolWriter) when it spills these large record states
        scripts = vc.gen_scripts(rep, "Gen_FimSliverConv_" + mode, "MC_FimSliverConv", GEN, c, max_obs=40, timeout=3400, dfs=True)
        scripts = [[{"op": "Vocab"}] + s for s in scripts[:1]] + scripts[1:]
        vc.run_and_validate(rep, "conv", "harness.conv_adapter.run_script", "Trace_FimSliverConv", scripts, [{}],
                            {"convert": "every sliver of the family written and rebuilt from every nested element, and through dict/JSON",
                             "props": "every set / set-several / unset / set-None / get on every element x property of populated graphs"}[mode],
                            batch_lines=4000)
    rep.extra["exhaustive"] = True
    return rep
