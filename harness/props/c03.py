"""C03 - attribute value codecs are lossless, canonical and never mutate their input."""
from ..core import Report
from . import value_common as vc

MC = """SPECIFICATION Spec
CONSTANTS
  MaxDepth = {MaxDepth}
  Wide = {Wide}
VIEW View
CONSTRAINT Bound
INVARIANT AllLaws
PROPERTY FinalizedFrozen
CHECK_DEADLOCK FALSE
"""
GEN = """SPECIFICATION Spec
CONSTANTS
  MaxDepth = {MaxDepth}
  Wide = {Wide}
VIEW View
CONSTRAINT Bound
ACTION_CONSTRAINT LogStep
CHECK_DEADLOCK FALSE
"""


def run(tier, seed):
    rep = Report("C03", tier, seed)
    quick = tier == "quick"
    c = {"MaxDepth": 5 if quick else 6, "Wide": "FALSE" if quick else "TRUE"}
    rep.add_mc("MC_FimCodec laws + maintenance machine", vc.run_tlc_cfg("MC_FimCodec", MC, c), c)
    scripts = vc.gen_scripts(rep, "Gen_FimCodec", "MC_FimCodec", GEN, c, max_obs=800, timeout=3000)
    vc.run_and_validate(rep, "codec", "harness.value_adapter.run_codec_script", "Trace_FimCodec", scripts, [{}],
                        "every class x field assignment (encode/decode/re-encode, update, unknown keys) + maintenance histories")
    rep.extra["exhaustive"] = True
    return rep
