"""C04 - graphs sharing the in-memory store are isolated; clones are independent."""
import random

from ..core import Report
from . import store_common as sc

VARIANTS = [{"backend": "shared"}, {"backend": "disjoint"}]
# both text formats for the import/clone paths
VARIANTS_FMT = [{"backend": "shared", "fmt": "graphml"}, {"backend": "disjoint", "fmt": "graphml"},
                {"backend": "shared", "fmt": "json"}, {"backend": "disjoint", "fmt": "json"}]


def run(tier, seed):
    rep = Report("C04", tier, seed)
    quick = tier == "quick"
    # design level: the frame condition (Isolation), clone faithfulness etc. on the multi-graph alphabet, 3 graph ids
    sc.model_check(rep, "MC_FimStore profile=graphs",
                   sc.consts(["g1", "g2", "g3"], ["a", "b"], depth=4 if quick else 5, queries=False, profile="graphs"))
    # spec -> code: all behaviours of the multi-graph alphabet up to the bound, on both stores
    scripts = sc.generate(rep, "Gen_FimStore profile=graphs",
                          sc.consts(["g1", "g2", "g3"], ["a", "b"], depth=4, profile="graphs"))
    sc.run_and_validate(rep, scripts, VARIANTS if quick else VARIANTS_FMT, "tlc-generated multi-graph behaviours")
    for seed_name in ("pair", "tri"):
        d = (3 if seed_name == "pair" else 2) if quick else 3
        sc.model_check(rep, "MC_FimStore profile=graphs seed=" + seed_name,
                       sc.consts(["g1", "g2", "g3"], ["a", "b"], depth=d, queries=False, profile="graphs", seed=seed_name))
        scripts = sc.generate(rep, "Gen_FimStore profile=graphs seed=" + seed_name,
                              sc.consts(["g1", "g2", "g3"], ["a", "b"], depth=d + 1, profile="graphs", seed=seed_name))
        sc.run_and_validate(rep, scripts, VARIANTS if quick else VARIANTS_FMT, "tlc-generated from seeded store " + seed_name)
    # code -> spec: long random interleavings over 4 graph ids, import/clone/delete heavy
    rng = random.Random(seed)
    w = {"Import": 8, "Export": 6, "Clone": 6, "DeleteGraph": 3, "DeleteAll": 0.3, "AddNode": 14, "AddLink": 8,
         "UpdateNodesProp": 3, "Tamper": 1.5, "MergeNodes": 2, "GetNodeProps": 1, "GetLinkProps": 1,
         "ByClass": 1, "ByClassType": .3, "NodeExists": .5, "CheckUnique": .3}
    gen = sc.RandomStoreOps(rng, ["g1", "g2", "g3", "g4"], ["a", "b", "c"], ["K1", "K2"], ["r1", "r2"],
                            ["p", "Name"], ["s:v1", "s:v2", "i:7"], weights=w)
    rs = [gen.script(50) for _ in range(120 if quick else 1200)]
    sc.run_and_validate(rep, rs, VARIANTS_FMT, "random multi-graph interleavings")
    return rep
