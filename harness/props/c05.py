"""C05 - in-memory graph backends agree with each other and with the reference model (spec/FimStore.tla)."""
import random

from ..core import Report
from . import store_common as sc

VARIANTS = [{"backend": "shared"}, {"backend": "disjoint"}]


def run(tier, seed):
    rep = Report("C05", tier, seed)
    quick = tier == "quick"
    # 1. the reference model itself: design-level properties, exhaustively for small constants
    sc.model_check(rep, "MC_FimStore", sc.consts(["g1", "g2"], ["a", "b"], depth=3 if quick else 4, queries=False))
    # 2. spec -> code: every transition of the bounded model replayed on both backends, judged by Trace_FimStore
    scripts = sc.generate(rep, "Gen_FimStore", sc.consts(["g1", "g2"], ["a", "b"], depth=3 if quick else 4))
    sc.run_and_validate(rep, scripts, VARIANTS, "tlc-generated from the empty store")
    for seed_name in ("pair", "tri"):
        sc.model_check(rep, "MC_FimStore seed=" + seed_name,
                       sc.consts(["g1", "g2"], ["a", "b"], depth=2 if quick else 3, queries=False, seed=seed_name))
        scripts = sc.generate(rep, "Gen_FimStore seed=" + seed_name,
                              sc.consts(["g1", "g2"], ["a", "b"], depth=2 if quick else 3, seed=seed_name))
        sc.run_and_validate(rep, scripts, VARIANTS, "tlc-generated from seeded store " + seed_name)
    # 3. code -> spec: seeded random histories over a larger alphabet
    rng = random.Random(seed)
    gen = sc.RandomStoreOps(rng, ["g1", "g2", "g3"], ["a", "b", "c", "d"], ["K1", "K2", "K3"], ["r1", "r2", "r3"],
                            ["p", "q", "Name", "Type"], ["s:v1", "s:v2", "i:5", "s:"], merge=True)
    rs = [gen.script(40) for _ in range(150 if quick else 3000)]
    sc.run_and_validate(rep, rs, VARIANTS, "random")
    rep.extra["exhaustive"] = False
    return rep
