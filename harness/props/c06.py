"""C06 - neighbour and path queries return exactly what their contract describes."""
import os
import random

from .. import tlc, pipeline
from ..core import Report
from . import store_common as sc

VARIANTS = [{"backend": "shared"}, {"backend": "disjoint"}]

CFG = """SPECIFICATION Spec
CONSTANTS
  NN = {NN}
  CLS = {"K1", "K2"}
  RELS = {"r1", "r2"}
  Loops = {Loops}
  FullQueries = {Full}
VIEW View
{MODE}
CHECK_DEADLOCK FALSE
"""


def enumerate_graphs(rep, nn, loops, full, check):
    c = {"NN": nn, "Loops": "TRUE" if loops else "FALSE", "Full": "TRUE" if full else "FALSE",
         "MODE": "INVARIANT QueriesSound" if check else "ACTION_CONSTRAINT LogStep"}
    cfg = tlc.write_cfg(CFG, c)
    try:
        r = tlc.run_tlc("MC_FimQuery", cfg, workers=16 if check else 1, want_printed=not check, timeout=3400)
    finally:
        os.unlink(cfg)
    if check:
        rep.add_mc(f"MC_FimQuery NN={nn} loops={loops}", r, c)
        return None
    scripts, ntrans, nstates = pipeline.scripts_from_gen(r.printed, max_obs_per_script=1000)
    rep.extra.setdefault("generated", []).append({"name": f"Gen_FimQuery NN={nn} loops={loops} full={full}",
                                                  "graphs": nstates, "queries_logged": ntrans, "scripts": len(scripts)})
    return scripts


def random_graph_script(rng, n_nodes, n_queries):
    ids = ["n%d" % i for i in range(n_nodes)]
    cls = ["K1", "K2", "K3"]
    rels = ["r1", "r2", "r3"]
    s = []
    # decoy graph with the same node ids: fully connected, or a star around a hub that only the decoy has (after merges
    # the hub is a node of ANOTHER graph lying between two nodes of G)
    star = rng.random() < 0.5
    for i in ids:
        s.append({"op": "AddNode", "g": "decoy", "n": i, "cls": "K1", "props": {}})
    if star:
        s.append({"op": "AddNode", "g": "decoy", "n": "hub", "cls": "K2", "props": {}})
        for i in ids:
            s.append({"op": "AddLink", "g": "decoy", "a": i, "b": "hub", "rel": rng.choice(rels), "props": {}})
    else:
        for i in range(n_nodes):
            for j in range(i + 1, n_nodes):
                s.append({"op": "AddLink", "g": "decoy", "a": ids[i], "b": ids[j], "rel": "r1", "props": {}})
    for i in ids:
        s.append({"op": "AddNode", "g": "G", "n": i, "cls": rng.choice(cls), "props": {}})
    p = rng.choice([0.2, 0.35, 0.5])
    for i in range(n_nodes):
        for j in range(i, n_nodes):
            if (i != j and rng.random() < p) or (i == j and rng.random() < 0.08):
                s.append({"op": "AddLink", "g": "G", "a": ids[i], "b": ids[j], "rel": rng.choice(rels), "props": {}})
    # history: nodes of the decoy graph merged into G leave connections from G's nodes to nodes that still carry the
    # other graph's id; queries on G must not see them
    if star or rng.random() < 0.3:
        merged = rng.sample(ids, rng.choice([2, 2, 3]))
        for x in merged:
            s.append({"op": "MergeNodes", "g": "G", "n": x, "h": "decoy", "pol": {}})
        # the merged nodes are now two hops apart THROUGH the other graph: ask for the paths between them
        for a in merged:
            for z in merged:
                if a != z:
                    s.append({"op": "ShortestPath", "g": "G", "a": a, "z": z, "rel": ""})
                    s.append({"op": "ShortestPath", "g": "G", "a": a, "z": z, "rel": rng.choice(rels)})
        s.append({"op": "PathWithHops", "g": "G", "a": merged[0], "z": merged[1], "hops": []})
        s.append({"op": "FirstNbr", "g": "G", "n": merged[0], "rel": "r1", "cls": "K1"})
    for _ in range(n_queries):
        k = rng.random()
        if k < .25:
            s.append({"op": "FirstNbr", "g": "G", "n": rng.choice(ids), "rel": rng.choice(rels), "cls": rng.choice(cls)})
        elif k < .5:
            s.append({"op": "SecondNbr", "g": "G", "n": rng.choice(ids), "r1": rng.choice(rels), "c1": rng.choice(cls),
                      "r2": rng.choice(rels), "c2": rng.choice(cls)})
        elif k < .8:
            s.append({"op": "ShortestPath", "g": "G", "a": rng.choice(ids), "z": rng.choice(ids),
                      "rel": rng.choice(rels + ["", ""])})
        else:
            a, z = rng.sample(ids, 2)
            s.append({"op": "PathWithHops", "g": "G", "a": a, "z": z,
                      "hops": rng.sample(ids, rng.choice([0, 1, 1, 2]))})
    return s


def run(tier, seed):
    rep = Report("C06", tier, seed)
    quick = tier == "quick"
    enumerate_graphs(rep, 3, False, True, check=True)
    if not quick:
        enumerate_graphs(rep, 3, True, True, check=True)
    scripts = enumerate_graphs(rep, 3, False, True, check=False)
    sc.run_and_validate(rep, scripts, VARIANTS, "all graphs on 3 nodes")
    if not quick:
        scripts = enumerate_graphs(rep, 3, True, True, check=False)
        sc.run_and_validate(rep, scripts, VARIANTS, "all graphs on 3 nodes with self-loops")
        scripts = enumerate_graphs(rep, 4, False, False, check=False)
        sc.run_and_validate(rep, scripts, [VARIANTS[0]], "all graphs on 4 nodes, queries from node a", batch_lines=40000)
    rng = random.Random(seed)
    rs = [random_graph_script(rng, rng.choice([5, 6, 7]), 40) for _ in range(60 if quick else 1500)]
    sc.run_and_validate(rep, rs, VARIANTS, "random graphs 5-7 nodes")
    rep.extra["exhaustive"] = True
    rep.extra["rule"] = "every typed graph on 3 (thorough: 4) nodes x every query argument combination"
    return rep
