"""C07 - every model the topology API builds satisfies the published graph rules."""
import random

from ..core import Report
from . import topo_common as tc


def run(tier, seed):
    rep = Report("C07", tier, seed)
    quick = tier == "quick"
    M = lambda name, c: (lambda: tc.model_check(rep, name, c))
    G = lambda name, c: (lambda: tc.generate(rep, name, c, workers=8))
    jobs = [M("MC_FimTopology seed=" + sd, tc.consts(d if quick or sd == "empty" else d + 1, sd, "full"))
            for sd, d in (("empty", 3 if quick else 5), ("two", 2 if quick else 3), ("svc", 2 if quick else 3))]
    # substrate flavour: explicit ids, node-level services, explicit links, composite builders
    jobs.append(M("MC_FimTopology substrate seed=sub", tc.consts(3 if quick else 4, "sub", "full", "substrate")))
    gens = [G("Gen_FimTopology seed=" + sd, tc.consts(3 if quick or sd == "rich" else 4, sd, "full"))
            for sd in (("svc",) if quick else ("two", "svc", "rich"))]
    gens.append(G("Gen_FimTopology seed=twin", tc.consts(2 if quick else 3, "twin", "full")))
    gens.append(G("Gen_FimTopology substrate seed=sub", tc.consts(3 if quick else 4, "sub", "full", "substrate")))
    res = tc.together(quick, *(jobs + gens))[len(jobs):]
    scripts = [x for r in res[:-1] for x in r]
    sscripts = res[-1]
    tc.run_and_validate(rep, scripts, "tlc-generated building/removal behaviours from seeded topologies")
    tc.run_and_validate(rep, sscripts, "tlc-generated substrate-model behaviours", flavour="substrate")
    rng = random.Random(seed)
    gen = tc.RandomTopoOps(rng)
    rs = [gen.script(40) for _ in range(100 if quick else 1500)]
    tc.run_and_validate(rep, rs, "random walks over all building calls")
    return rep
