"""C08 - removal and disconnection delete exactly the owned structure and nothing else."""
import random

from ..core import Report
from . import topo_common as tc

REMOVALS = {"RemoveNode", "RemoveComponent", "RemoveService", "Disconnect", "RemoveFacility", "RemoveSwitch", "Unpeer",
            "RemoveSubInterface", "RemoveLink", "RemoveNodeService"}
HANDLE_OPS = {"Connect", "Disconnect", "Peer", "Unpeer", "AddSubInterface", "RemoveSubInterface", "AddInterface", "HandleIfs"}


def mine(op, clause):
    """removals and disconnect/unpeer: every clause; the other calls made through a handle (connect, peer, adding a
    sub-interface ...) only where the clause is about the handle - their effect on the model is C07's / C09's"""
    return op["op"] in REMOVALS or "handle" in clause


def run(tier, seed):
    rep = Report("C08", tier, seed)
    quick = tier == "quick"
    # design level: RemovalFrame (everything that survives a removal is unchanged) + the graph rules after every removal
    KEEP = lambda p: p["op"]["op"] in REMOVALS or p["op"]["op"] in HANDLE_OPS or p["op"]["op"] == "Views"
    G = lambda name, c, w=8: (lambda: tc.generate(rep, name, c, keep=KEEP, workers=w))
    M = lambda name, c: (lambda: tc.model_check(rep, name, c))
    res = tc.together(quick,
        M("MC_FimTopology seed=svc", tc.consts(2 if quick else 4, "svc", "full")),
        M("MC_FimTopology seed=rich", tc.consts(2 if quick else 4, "rich", "full")),
        M("MC_FimTopology seed=subs", tc.consts(2 if quick else 3, "subs", "full")),
        M("MC_FimTopology seed=fac3 profile=fac", tc.consts(4 if quick else 6, "fac3", "fac")),
        G("Gen_FimTopology seed=svc (removal transitions)", tc.consts(3 if quick else 4, "svc", "full")),
        G("Gen_FimTopology seed=rich (removal transitions)", tc.consts(3, "rich", "full")),
        G("Gen_FimTopology seed=twin (removal transitions)", tc.consts(2 if quick else 3, "twin", "full")),
        # a port with two sub-interfaces (random walks reach this only by luck)
        G("Gen_FimTopology seed=subs (removal transitions)", tc.consts(2 if quick else 3, "subs", "full")),
        # a facility with three interfaces: which of them is connected when the facility goes is the explorer's choice
        G("Gen_FimTopology seed=fac3 (removal transitions)", tc.consts(4 if quick else 5, "fac3", "fac")),
        # substrate models: two-ended direct links between node ports, node-level services
        lambda: tc.generate(rep, "Gen_FimTopology substrate seed=sub (removal transitions)",
                            tc.consts(3 if quick else 4, "sub", "full", "substrate"), keep=KEEP, workers=8))
    scripts = [x for r in res[4:9] for x in r]
    sscripts = res[9]
    tc.run_and_validate(rep, scripts, "every applicable removal/disconnect in every reachable topology of the bound", only_ops=mine)
    tc.run_and_validate(rep, sscripts, "every applicable removal in every reachable substrate model of the bound",
                        flavour="substrate", only_ops=mine)
    rng = random.Random(seed)
    gen = tc.RandomTopoOps(rng, invalid_prob=0.05)
    rs = [gen.script(50) for _ in range(150 if quick else 1500)]
    tc.run_and_validate(rep, rs, "random walks (build, connect, peer, sub-interfaces, then remove)", only_ops=mine)
    return rep
