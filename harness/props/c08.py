"""C08 - removal and disconnection delete exactly the owned structure and nothing else."""
import random

from ..core import Report
from . import topo_common as tc

REMOVALS = {"RemoveNode", "RemoveComponent", "RemoveService", "Disconnect", "RemoveFacility", "RemoveSwitch", "Unpeer",
            "RemoveSubInterface", "RemoveLink", "RemoveNodeService"}
HANDLE_OPS = {"Connect", "Disconnect", "Peer", "Unpeer", "AddSubInterface", "RemoveSubInterface", "AddInterface", "HandleIfs"}


def mine(op, clause):
    """removals and disconnect/unpeer: every clause; the other calls made through a handle (connect, peer, adding a
    sub-interface ...) only where the clause is about the handle - their effect on the model is C07's / C09's"""
    return op["op"] in REMOVALS or "handle" in clause


def run(tier, seed):
    rep = Report("C08", tier, seed)
    quick = tier == "quick"
    # design level: RemovalFrame (everything that survives a removal is unchanged) + the graph rules after every removal
    for sd in ("svc", "rich"):
        tc.model_check(rep, "MC_FimTopology seed=" + sd, tc.consts(2 if quick else 4, sd, "full"))
    tc.model_check(rep, "MC_FimTopology seed=subs", tc.consts(2 if quick else 3, "subs", "full"))
    tc.model_check(rep, "MC_FimTopology seed=fac3 profile=fac", tc.consts(4 if quick else 6, "fac3", "fac"))
    scripts = []
    for sd in ("svc", "rich"):
        scripts += tc.generate(rep, "Gen_FimTopology seed=%s (removal transitions)" % sd, tc.consts(3 if quick or sd == "rich" else 4, sd, "full"),
                               keep=lambda p: p["op"]["op"] in REMOVALS or p["op"]["op"] in HANDLE_OPS or p["op"]["op"] == "Views",
                               workers=8)
    scripts += tc.generate(rep, "Gen_FimTopology seed=twin (removal transitions)", tc.consts(2 if quick else 3, "twin", "full"),
                           keep=lambda p: p["op"]["op"] in REMOVALS or p["op"]["op"] in HANDLE_OPS or p["op"]["op"] == "Views",
                           workers=8)
    # a port with two sub-interfaces (random walks reach this only by luck)
    scripts += tc.generate(rep, "Gen_FimTopology seed=subs (removal transitions)", tc.consts(2 if quick else 3, "subs", "full"),
                           keep=lambda p: p["op"]["op"] in REMOVALS or p["op"]["op"] in HANDLE_OPS or p["op"]["op"] == "Views",
                           workers=8)
    # a facility with three interfaces: which of them is connected when the facility goes is the explorer's choice
    scripts += tc.generate(rep, "Gen_FimTopology seed=fac3 (removal transitions)", tc.consts(4 if quick else 5, "fac3", "fac"),
                           keep=lambda p: p["op"]["op"] in REMOVALS or p["op"]["op"] in HANDLE_OPS or p["op"]["op"] == "Views",
                           workers=8)
    tc.run_and_validate(rep, scripts, "every applicable removal/disconnect in every reachable topology of the bound", only_ops=mine)
    # substrate models: two-ended direct links between node ports, node-level services
    sscripts = tc.generate(rep, "Gen_FimTopology substrate seed=sub (removal transitions)", tc.consts(3 if quick else 4, "sub", "full", "substrate"),
                           keep=lambda p: p["op"]["op"] in REMOVALS or p["op"]["op"] in HANDLE_OPS or p["op"]["op"] == "Views",
                           workers=8)
    tc.run_and_validate(rep, sscripts, "every applicable removal in every reachable substrate model of the bound",
                        flavour="substrate", only_ops=mine)
    rng = random.Random(seed)
    gen = tc.RandomTopoOps(rng, invalid_prob=0.05)
    rs = [gen.script(50) for _ in range(150 if quick else 1500)]
    tc.run_and_validate(rep, rs, "random walks (build, connect, peer, sub-interfaces, then remove)", only_ops=mine)
    return rep
