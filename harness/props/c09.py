"""C09 - a topology operation that fails leaves the model unchanged."""
import random

from ..core import Report
from . import topo_common as tc


def run(tier, seed):
    rep = Report("C09", tier, seed)
    quick = tier == "quick"
    # design level: FailureAtomic on the reference model (incl. the code-shaped multi-step AddService with rollback)
    for sd in ("two", "svc"):
        tc.model_check(rep, "MC_FimTopology seed=" + sd, tc.consts(2 if quick else 4, sd, "full"))
    scripts = []
    for sd in ("two", "svc", "rich"):
        # every FAILING call the model has in every reachable state of the bound (the rejected argument at every position)
        scripts += tc.generate(rep, "Gen_FimTopology seed=%s (failing calls)" % sd, tc.consts((2 if sd == "rich" else 3) if quick else (3 if sd == "rich" else 4), sd, "full"),
                               keep=lambda p: (not p["chg"]) and p["op"]["op"] not in ("Views", "HandleIfs", "Validate"),
                               workers=8)
    failing = lambda op, clause: True
    traces, verdicts = tc.run_and_validate(rep, scripts, "all failing calls in all reachable topologies of the bound")
    sscripts = tc.generate(rep, "Gen_FimTopology substrate seed=sub (failing calls)", tc.consts(3 if quick else 4, "sub", "full", "substrate"),
                           keep=lambda p: (not p["chg"]) and p["op"]["op"] not in ("Views", "HandleIfs", "Validate"),
                           workers=8)
    tc.run_and_validate(rep, sscripts, "all failing calls in substrate models of the bound", flavour="substrate")
    # histories the model's own behaviours do not contain: a removed service leaves its peer's port behind (a recorded
    # finding of C08), so peering the re-created service is refused at the SECOND port - after the first was made
    N = lambda n: {"op": "AddNode", "name": n, "site": "S1", "ntype": "VM", "rp": {}}
    S = lambda n, t: {"op": "AddService", "name": n, "nstype": t, "ifs": [], "site": "", "rp": {}}
    P = lambda a, b: {"op": "Peer", "a": "svc:" + a, "b": "svc:" + b}
    hist = []
    for t1, t2 in (("L2STS", "L2Bridge"), ("FABNetv4", "FABNetv4"), ("L2Bridge", "L2PTP")):
        base = [N("n1"), S("s1", t1), S("s2", t2), P("s1", "s2")]
        for gone, other in (("s1", "s2"), ("s2", "s1")):
            tg = t1 if gone == "s1" else t2
            hist.append(base + [{"op": "RemoveService", "name": gone}, S(gone, tg), P(gone, other), {"op": "Views"}])
            hist.append(base + [{"op": "RemoveService", "name": gone}, S(gone, tg), P(other, gone), {"op": "Views"}])
            hist.append(base + [{"op": "Unpeer", "a": "svc:" + gone, "b": "svc:" + other}, P(gone, other), P(gone, other), P(other, gone)])
    tc.run_and_validate(rep, hist, "peering again after the peer service was removed and re-created / un-peered")
    rng = random.Random(seed)
    gen = tc.RandomTopoOps(rng, invalid_prob=0.5)
    rs = [gen.script(45) for _ in range(100 if quick else 1500)]
    tc.run_and_validate(rep, rs, "random walks with invalid calls injected with probability 1/2")
    # keep only rejections on lines where the call raised (or was expected to raise): that is this property's concern
    rep.rejects = [r for r in rep.rejects if r.detail.get("observed_out") != "ok" or r.clause.startswith("outcome: expected")
                   and not r.clause.startswith("outcome: expected ok")]
    return rep
