"""C10 - slice validation accepts a topology exactly when the constraint tables allow it."""
import os

from .. import tlc, pipeline
from ..core import Report
from . import topo_common as tc

CFG = """SPECIFICATION Spec
CONSTANTS
  Flavour = "experiment"
  MaxIfs = {MaxIfs}
  Kinds = {Kinds}
  PropMode = "{PropMode}"
  SvcSubset = {SvcSubset}
VIEW View
{MODE}
CHECK_DEADLOCK FALSE
"""


def run_cfg(rep, name, c, check):
    c = dict(c, MODE="INVARIANT IndependentOK\nINVARIANT RulesHold" if check else "ACTION_CONSTRAINT LogStep")
    cfg = tlc.write_cfg(CFG, c)
    try:
        r = tlc.run_tlc("MC_FimValidate", cfg, workers=16 if check else 8, want_printed=not check, timeout=3400)
    finally:
        os.unlink(cfg)
    if check:
        rep.add_mc(name, r, c)
        return None
    printed = sorted((p for p in r.printed if isinstance(p, dict) and "op" in p), key=lambda p: pipeline.jkey(p))
    scripts, ntrans, nstates = pipeline.scripts_from_gen(printed, max_obs_per_script=10)
    rep.extra.setdefault("generated", []).append({"name": name, "configurations": nstates, "scripts": len(scripts)})
    return scripts


def run(tier, seed):
    rep = Report("C10", tier, seed)
    quick = tier == "quick"
    if quick:
        confs = [{"MaxIfs": 3, "Kinds": '{"D", "S"}', "PropMode": "none", "SvcSubset": "{}"},
                 {"MaxIfs": 2, "Kinds": '{"F", "B"}', "PropMode": "none", "SvcSubset": "{}"},
                 {"MaxIfs": 2, "Kinds": '{"D", "B"}', "PropMode": "each",
                  "SvcSubset": '{"L2Bridge", "L2PTP", "PortMirror", "L2STS", "FABNetv4"}'}]
    else:
        confs = [{"MaxIfs": 4, "Kinds": '{"D", "S", "B", "F"}', "PropMode": "none", "SvcSubset": "{}"},
                 {"MaxIfs": 2, "Kinds": '{"D", "S", "B", "F"}', "PropMode": "each", "SvcSubset": "{}"}]
    scripts = [[{"op": "ConstraintTables"}]]
    for i, c in enumerate(confs):
        run_cfg(rep, "MC_FimValidate #%d" % i, c, check=True)
        scripts += run_cfg(rep, "Gen_FimValidate #%d" % i, c, check=False)
    tc.run_and_validate(rep, scripts, "every slice configuration built through the public API, then validate()", batch_lines=8000)
    rep.extra["exhaustive"] = True
    return rep
