"""C11 - authorization and accounting attributes cover every resource, in any order."""
import os

from .. import tlc, pipeline
from ..core import Report
from . import topo_common as tc

CFG = """SPECIFICATION Spec
CONSTANTS
  Flavour = "experiment"
  Wide = {Wide}
VIEW View
{MODE}
CHECK_DEADLOCK FALSE
"""


def run_cfg(rep, name, wide, check):
    c = {"Wide": wide, "MODE": "INVARIANT BuildsValid" if check else "ACTION_CONSTRAINT LogStep"}
    cfg = tlc.write_cfg(CFG, c)
    try:
        r = tlc.run_tlc("MC_FimAuthz", cfg, workers=16 if check else 4, want_printed=not check, timeout=3400)
    finally:
        os.unlink(cfg)
    if check:
        rep.add_mc(name, r, c)
        return None
    printed = sorted((p for p in r.printed if isinstance(p, dict) and "op" in p), key=lambda p: pipeline.jkey(p))
    scripts, ntrans, nstates = pipeline.scripts_from_gen(printed, max_obs_per_script=10)
    rep.extra.setdefault("generated", []).append({"name": name, "slices_x_orders": nstates, "scripts": len(scripts)})
    return scripts


def run(tier, seed):
    rep = Report("C11", tier, seed)
    wide = "FALSE" if tier == "quick" else "TRUE"
    run_cfg(rep, "MC_FimAuthz builds are valid slices", wide, True)
    scripts = run_cfg(rep, "Gen_FimAuthz", wide, False)
    tc.run_and_validate(rep, scripts, "every slice of the family in every creation order: collect from topology, from the serialised "
                                      "model, and tally", batch_lines=3000,
                        only_ops=lambda op, clause: op["op"] in ("Collect", "CollectASM", "Tally", "TallyASM"))
    # the collectors must not carry anything from one slice to the next: the same scripts, one process, two orders
    key = lambda s: pipeline.jkey(s)
    seq = sorted(scripts, key=key)
    seq = seq[::4] if tier == "quick" else seq[::max(1, len(seq) // 600)]     # one process, two orders: a sample suffices
    for label, order in (("sorted", seq), ("reversed", seq[::-1])):
        tc.run_and_validate(rep, order, "all slices collected one after another in one process (%s order)" % label, procs=1,
                            batch_lines=3000, only_ops=lambda op, clause: op["op"] in ("Collect", "CollectASM", "Tally", "TallyASM"))
    rep.extra["exhaustive"] = True
    return rep
