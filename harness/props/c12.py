"""C12 - delegations and pools survive encoding and regrouping unchanged."""
from ..core import Report
from . import value_common as vc

MC = """SPECIFICATION Spec
CONSTANTS
  Big = {Big}
VIEW View
INVARIANT AllLaws
CHECK_DEADLOCK FALSE
"""
GEN = """SPECIFICATION Spec
CONSTANTS
  Big = {Big}
VIEW View
ACTION_CONSTRAINT LogStep
CHECK_DEADLOCK FALSE
"""


def run(tier, seed):
    rep = Report("C12", tier, seed)
    quick = tier == "quick"
    big = "FALSE" if quick else "TRUE"
    rep.add_mc("MC_FimDelegation pools->nodes->pools law", vc.run_tlc_cfg("MC_FimDelegation", MC, {"Big": big}), {"Big": big})
    scripts = vc.gen_scripts(rep, "Gen_FimDelegation", "MC_FimDelegation", GEN, {"Big": big}, max_obs=500, timeout=3000)
    vc.run_and_validate(rep, "delegation", "harness.value_adapter.run_delegation_script", "Trace_FimDelegation", scripts,
                        [{"variant": 0}, {"variant": 1}, {"variant": 2}],
                        "all delegation sets and pool families of the bound x 3 concrete detail values", variant_key="variant")
    rep.extra["exhaustive"] = True
    return rep
