"""C13 - partitioning an aggregate model yields sound per-delegation models."""
from ..core import Report
from . import value_common as vc

MC = """SPECIFICATION Spec
CONSTANTS
  OptSet = "{OptSet}"
VIEW View
INVARIANT ClausesHold
CHECK_DEADLOCK FALSE
"""
GEN = """SPECIFICATION Spec
CONSTANTS
  OptSet = "{OptSet}"
VIEW View
ACTION_CONSTRAINT LogStep
CHECK_DEADLOCK FALSE
"""


def run(tier, seed):
    rep = Report("C13", tier, seed)
    quick = tier == "quick"
    c = {"OptSet": "small" if quick else "full"}
    rep.add_mc("MC_FimADM clauses on the constructive definition", vc.run_tlc_cfg("MC_FimADM", MC, c, workers=16), c)
    scripts = vc.gen_scripts(rep, "Gen_FimADM", "MC_FimADM", GEN, c, max_obs=10, timeout=3400)
    # the aggregate-model object is partitioned once BEFORE it grows (it must not remember the earlier node list)
    scripts = [[y for o in sc for y in (([{"op": "Partition"}] if o["op"] == "Grow" else []) + [o])] for sc in scripts]
    vc.run_and_validate(rep, "adm", "harness.adm_adapter.run_script", "Trace_FimADM", scripts, [{}],
                        "every annotated aggregate model of the bound: partition, clause by clause, re-keying (once, twice, to the same key), "
                        "and partition again after the model has grown",
                        batch_lines=2500)
    # code -> spec: the repository's own advertisement models (realistic size), every clause evaluated by TLC
    import glob
    import os
    import sys
    from .. import adm_adapter
    repo = os.environ.get("VERIF_REPO", "/repo")
    # tracked model files first; the root-level ones are artefacts the repository's tests leave behind (present or not)
    files = sorted(glob.glob(os.path.join(repo, "test", "models", "*-ad.graphml"))) + sorted(glob.glob(os.path.join(repo, "*-ad.graphml")))
    fscripts = []
    for f in files:
        try:
            fscripts.append(adm_adapter.file_script(f))
        except Exception as e:                                    # noqa: a file this importer cannot read is skipped, and said so
            rep.extra.setdefault("model_files_skipped", []).append({"file": os.path.basename(f), "why": type(e).__name__})
    if fscripts:
        vc.run_and_validate(rep, "adm", "harness.adm_adapter.run_script", "Trace_FimADM", fscripts, [{}],
                            "the repository's advertisement models: " + ", ".join(os.path.basename(f) for f in files), batch_lines=10)
    rep.extra["exhaustive"] = True
    return rep
