"""C14 - combined broker model: merge is order-independent and unmerge is its inverse."""
import random

from ..core import Report
from . import value_common as vc

MC = """SPECIFICATION Spec
CONSTANTS
  MaxDepth = {MaxDepth}
  FamilySet = "{FamilySet}"
VIEW View
CONSTRAINT Bound
INVARIANT OrderIndependent
INVARIANT Provenance
INVARIANT IsUnion
PROPERTY SourcesUntouched
CHECK_DEADLOCK FALSE
"""
GEN = """SPECIFICATION Spec
CONSTANTS
  MaxDepth = {MaxDepth}
  FamilySet = "{FamilySet}"
VIEW View
CONSTRAINT Bound
ACTION_CONSTRAINT LogStep
CHECK_DEADLOCK FALSE
"""


def run(tier, seed):
    rep = Report("C14", tier, seed)
    quick = tier == "quick"
    c = {"MaxDepth": 6 if quick else 7, "FamilySet": "few" if quick else "many"}
    rep.add_mc("MC_FimCBM laws", vc.run_tlc_cfg("MC_FimCBM", MC, c, workers=16), c)
    scripts = vc.gen_scripts(rep, "Gen_FimCBM", "MC_FimCBM", GEN, c, max_obs=50, timeout=3400)
    vc.run_and_validate(rep, "cbm", "harness.cbm_adapter.run_script", "Trace_FimCBM", scripts, [{}],
                        "all merge/unmerge/snapshot/rollback interleavings of the bound over families of delegation models")
    # histories: the model identifies states that different histories reach (merge then unmerge = nothing happened), so
    # the generated scripts replay shortest paths only; random long histories over the same families cover the rest
    fams = {}
    for sc in scripts:
        if sc and sc[0]["op"] == "LoadFamily":
            fams[vc.pipeline.jkey(sc[0])] = sc[0]
    rng = random.Random(seed)
    walks = []
    for fam in [fams[k] for k in sorted(fams)]:
        ids = sorted(fam["fam"])
        nodes = sorted({x for i in ids for x in fam["fam"][i]["n"]})
        for _ in range(12 if quick else 40):
            merged, snap, w = set(), False, [fam]
            for _ in range(rng.randint(6, 16)):
                r = rng.random()
                if r < 0.35 and len(merged) < len(ids):
                    i = rng.choice([x for x in ids if x not in merged])
                    w.append({"op": "Merge", "i": i})
                    # (generation only, no verdict hangs on it) a merge onto an element some merged model already speaks
                    # for is refused: the model is then NOT merged, and unmerging it is outside the interface
                    if not any(t in fam["fam"][j]["n"].get(x, {}).get("deleg", {})
                               for x, d in fam["fam"][i]["n"].items() for t in d.get("deleg", {}) for j in merged):
                        merged.add(i)
                elif r < 0.65 and merged:
                    i = rng.choice(sorted(merged))
                    w.append({"op": "Unmerge", "i": i})
                    merged.discard(i)
                elif r < 0.72 and merged:
                    w.append({"op": "Snapshot", "k": "k1"})
                    snap = set(merged)
                elif r < 0.78 and snap is not False and snap:
                    w.append({"op": "Rollback", "k": "k1"})
                    merged, snap = set(snap), False
                else:
                    w.append({"op": "GetDelegations", "x": rng.choice(nodes), "i": rng.choice(ids), "t": rng.choice(["cap", "lab"])})
            walks.append(w)
    vc.run_and_validate(rep, "cbm", "harness.cbm_adapter.run_script", "Trace_FimCBM", walks, [{}],
                        "random merge/unmerge/snapshot/rollback histories (6-16 steps) over the same families")
    rep.extra["exhaustive"] = True
    return rep
