"""C14 - combined broker model: merge is order-independent and unmerge is its inverse."""
from ..core import Report
from . import value_common as vc

MC = """SPECIFICATION Spec
CONSTANTS
  MaxDepth = {MaxDepth}
  FamilySet = "{FamilySet}"
VIEW View
CONSTRAINT Bound
INVARIANT OrderIndependent
INVARIANT Provenance
INVARIANT IsUnion
PROPERTY SourcesUntouched
CHECK_DEADLOCK FALSE
"""
GEN = """SPECIFICATION Spec
CONSTANTS
  MaxDepth = {MaxDepth}
  FamilySet = "{FamilySet}"
VIEW View
CONSTRAINT Bound
ACTION_CONSTRAINT LogStep
CHECK_DEADLOCK FALSE
"""


def run(tier, seed):
    rep = Report("C14", tier, seed)
    quick = tier == "quick"
    c = {"MaxDepth": 6 if quick else 7, "FamilySet": "few" if quick else "many"}
    rep.add_mc("MC_FimCBM laws", vc.run_tlc_cfg("MC_FimCBM", MC, c, workers=16), c)
    scripts = vc.gen_scripts(rep, "Gen_FimCBM", "MC_FimCBM", GEN, c, max_obs=50, timeout=3400)
    vc.run_and_validate(rep, "cbm", "harness.cbm_adapter.run_script", "Trace_FimCBM", scripts, [{}],
                        "all merge/unmerge/snapshot/rollback interleavings of the bound over families of delegation models")
    rep.extra["exhaustive"] = True
    return rep
