"""C15 - capacity arithmetic and comparison obey their algebraic laws."""
from ..core import Report
from .. import tlc
from . import value_common as vc

MC = """SPECIFICATION Spec
CONSTANTS
  MaxDepth = {MaxDepth}
  Family = "{Family}"
VIEW View
CONSTRAINT Bound
INVARIANT AllLaws
INVARIANT LedgerOK
CHECK_DEADLOCK FALSE
"""
GEN = """SPECIFICATION Spec
CONSTANTS
  MaxDepth = {MaxDepth}
  Family = "{Family}"
VIEW View
CONSTRAINT Bound
ACTION_CONSTRAINT LogStep
CHECK_DEADLOCK FALSE
"""


def run(tier, seed):
    rep = Report("C15", tier, seed)
    quick = tier == "quick"
    fam = "small" if quick else "cube"
    rep.add_mc("MC_FimCapacity laws+ledger", vc.run_tlc_cfg("MC_FimCapacity", MC, {"MaxDepth": 4 if quick else 5, "Family": fam}),
               {"Family": fam})
    # the same laws for ALL integer vectors, and one arbitrary ledger step (SMT, Apalache; FimCapacityAlgebra is shared)
    apa = tlc.run_apalache("APA_FimCapacity", "Inv", length=1)
    rep.extra.setdefault("symbolic_runs", []).append(apa)
    if apa["outcome"] != "NoError":
        rep.spec_violations.append({"run": "APA_FimCapacity Inv", "violation": "Inv", "trace": apa["cmd"]})
    if not quick:
        probe = tlc.run_apalache("APA_FimCapacity", "Probe_FitsIsTotal", length=0)
        rep.extra["symbolic_runs"].append(probe)
        if probe["outcome"] != "Error":
            raise tlc.TLCError("non-vacuity probe failed: Apalache found no two incomparable capacity vectors")
    scripts = vc.gen_scripts(rep, "Gen_FimCapacity", "MC_FimCapacity", GEN, {"MaxDepth": 4 if quick else 5, "Family": fam},
                             max_obs=600)
    # scales: plain, 10^6, 2^40 (arithmetic commutes with scaling; the recorder divides the results back)
    variants = [{"scale": 1}, {"scale": 10 ** 6}, {"scale": 2 ** 40}] if not quick else [{"scale": 1}, {"scale": 2 ** 40}]
    vc.run_and_validate(rep, "capacity", "harness.value_adapter.run_capacity_script", "Trace_FimCapacity", scripts, variants,
                        "all operations on all pairs of the vector family + ledger histories", variant_key="scale")
    rep.extra["exhaustive"] = True
    return rep
