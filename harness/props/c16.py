"""C16 - label, tag, name and data validation holds on every construction path."""
import random

from ..core import Report
from . import value_common as vc

MC = """SPECIFICATION Spec
CONSTANTS
  Wide = {Wide}
VIEW View
INVARIANT StoredInDomain
INVARIANT TwoSided
CHECK_DEADLOCK FALSE
"""
GEN = """SPECIFICATION Spec
CONSTANTS
  Wide = {Wide}
VIEW View
ACTION_CONSTRAINT LogStep
CHECK_DEADLOCK FALSE
"""
SEED = {"op": "LNew", "asg": {"vlan": {"form": "scalar", "items": ["100"]}, "mac": {"form": "list", "items": ["00:11:22:33:44:55"]},
                              "local_name": {"form": "scalar", "items": ["p1"]}}}


def run(tier, seed):
    rep = Report("C16", tier, seed)
    quick = tier == "quick"
    c = {"Wide": "FALSE" if quick else "TRUE"}
    rep.add_mc("MC_FimDomains stored-in-domain over the candidate grammar", vc.run_tlc_cfg("MC_FimDomains", MC, c, workers=16), c)
    r = vc.run_tlc_cfg("MC_FimDomains", GEN, c, workers=16, want_printed=True, timeout=3400)
    ops = {}
    for p in r.printed:
        if isinstance(p, dict) and "op" in p:
            ops[vc.pipeline.jkey(p["op"])] = p["op"]
    ops = [ops[k] for k in sorted(ops)]
    rnd = random.Random(seed)
    rnd.shuffle(ops)
    chunk = 150
    scripts = []
    for i in range(0, len(ops), chunk):
        scripts.append([{"op": "Reset"}] + ([SEED] if (i // chunk) % 2 else []) + ops[i:i + chunk])
    rep.extra.setdefault("generated", []).append({"name": "Gen_FimDomains", "constants": c, "candidate_ops": len(ops), "scripts": len(scripts)})
    vc.run_and_validate(rep, "domain", "harness.domain_adapter.run_script", "Trace_FimDomains", scripts, [{}],
                        "every candidate of the grammar x scalar/list form x every entry point, in shuffled order on one evolving object",
                        batch_lines=5000)
    rep.extra["exhaustive"] = True
    return rep
