"""C17 - sliver comparison reports exactly the differences between two slivers."""
from ..core import Report
from . import value_common as vc

MC = """SPECIFICATION Spec
CONSTANTS
  MaxDepth = {MaxDepth}
VIEW View
CONSTRAINT Bound
INVARIANT LawsHold
CHECK_DEADLOCK FALSE
"""
GEN = """SPECIFICATION Spec
CONSTANTS
  MaxDepth = {MaxDepth}
VIEW View
CONSTRAINT Bound
ACTION_CONSTRAINT LogStep
CHECK_DEADLOCK FALSE
"""


def run(tier, seed):
    rep = Report("C17", tier, seed)
    quick = tier == "quick"
    c = {"MaxDepth": 4 if quick else 5}
    rep.add_mc("MC_FimSliverDiff laws", vc.run_tlc_cfg("MC_FimSliverDiff", MC, c, workers=16), c)
    scripts = vc.gen_scripts(rep, "Gen_FimSliverDiff", "MC_FimSliverDiff", GEN, {"MaxDepth": 4 if quick else 5}, max_obs=60, timeout=3400)
    vc.run_and_validate(rep, "sliverdiff", "harness.diff_adapter.run_script", "Trace_FimSliverDiff", scripts, [{}],
                        "all single and combined edits of the bound applied to a copy; node, service and interface comparison in both directions")
    rep.extra["exhaustive"] = True
    return rep
