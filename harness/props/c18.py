"""C18 - instance sizing is sufficient and minimal; components match the catalogue."""
import shutil
import tempfile

from ..core import Report
from .. import value_adapter
from . import value_common as vc

MC = """SPECIFICATION Spec
CONSTANTS
  GridMode = "{GridMode}"
VIEW View
INVARIANT DataSane
INVARIANT SelfAdmissible
CHECK_DEADLOCK FALSE
"""
GEN = """SPECIFICATION Spec
CONSTANTS
  GridMode = "{GridMode}"
VIEW View
ACTION_CONSTRAINT LogStep
CHECK_DEADLOCK FALSE
"""


def run(tier, seed):
    import os
    rep = Report("C18", tier, seed)
    quick = tier == "quick"
    tmp = tempfile.mkdtemp(prefix="vh-cat-")
    try:
        env = value_adapter.catalog_env(tmp)
        os.environ.update(env)
        mode = "pm1" if quick else "dense"
        rep.add_mc("MC_FimCatalog data sanity", vc.run_tlc_cfg("MC_FimCatalog", MC, {"GridMode": "pm1"}), {"GridMode": "pm1"})
        scripts = vc.gen_scripts(rep, "Gen_FimCatalog", "MC_FimCatalog", GEN, {"GridMode": mode}, max_obs=1500, timeout=6000)
        vc.run_and_validate(rep, "catalog", "harness.value_adapter.run_catalog_script", "Trace_FimCatalog", scripts, [{}],
                            "request grid (catalogue values %s) + every catalogue entry x argument combination" %
                            ("+/-1" if quick else "dense"), batch_lines=6000, extra_env=env)
    finally:
        shutil.rmtree(tmp, ignore_errors=True)
    rep.extra["exhaustive"] = True
    return rep
