"""C19 - persistent-backend statements are well-formed and data-independent."""
import os

from .. import pipeline
from ..core import Report, Reject
from . import value_common as vc

MC = """SPECIFICATION Spec
CONSTANTS
  MaxLen = {MaxLen}
INVARIANT EscapedLiteralIsInert
INVARIANT RawQuoteIsNoticed
INVARIANT BalancedAgrees
INVARIANT KnownShapes
CHECK_DEADLOCK FALSE
"""


def run(tier, seed):
    sys_repo = os.environ.get("VERIF_REPO", "/repo")
    import sys
    if sys_repo not in sys.path:
        sys.path.insert(0, sys_repo)
    from .. import cypher_adapter as ca
    rep = Report("C19", tier, seed)
    quick = tier == "quick"
    c = {"MaxLen": 3 if quick else 4}
    rep.add_mc("MC_FimCypher lexer / escaping laws over all strings of the adversarial alphabet",
               vc.run_tlc_cfg("MC_FimCypher", MC, c, workers=16), c)
    names = ca.op_names()
    personas = ("some", "none", "null")
    runs = range(len(ca.VALUE_SETS))
    # one trace per operation instance: the benign run first, then the adversarial ones (the history the spec remembers)
    scripts = [[{"op": n, "persona": p, "run": r} for r in runs] for n in names for p in personas]
    traces = pipeline.exec_scripts("harness.cypher_adapter", "run_script", scripts, [{}], procs=16)
    verdicts, stats = pipeline.validate_traces("Trace_FimCypher", "Trace_FimCypher.cfg", traces, batch_lines=60, jvms=8)
    rep.traces += len(traces)
    nlines = sum(len(t["steps"]) for t in traces)
    rep.lines += nlines
    nst = sum(len(s["stmts"]) for t in traces for s in t["steps"])
    rep.extra.setdefault("validation", []).append(dict(stats, label="every public operation of the backend x 3 result personas x 3 value sets "
                                                       "(benign, quotes/backslash/braces/dollar, newline/keywords/trailing backslash)",
                                                       traces=len(traces), lines=nlines, statements=nst, operations=len(names)))
    by_tid = {t["tid"]: t for t in traces}
    for tid, v in verdicts.items():
        t = by_tid[tid]
        for (line, clause) in v["rejects"]:
            st = t["steps"][line - 1]
            rep.rejects.append(Reject("cypher", "", st["op"]["op"], clause, [s["op"] for s in t["steps"][:line]], line,
                                      {"persona": st["op"]["persona"], "statements": [s["q"][:400] for s in st["stmts"]][:6]}))
    for t in traces[:2]:
        rep.add_sample({"instance": t["steps"][0]["key"], "statements": [s["q"][:200] for s in t["steps"][0]["stmts"]][:3]})
    rep.extra["exhaustive"] = True
    return rep
