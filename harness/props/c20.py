"""C20 - store lock discipline and identifier allocation under concurrent use."""
import json
import os
import random

from concurrent.futures import ProcessPoolExecutor

from .. import tlc, pipeline, sched
from ..core import Report, Reject

CFG = """SPECIFICATION Spec
CONSTANTS
  Scenario = {Scenario}
  UseLock = {UseLock}
  Backend = "{Backend}"
  Scripts <- ScriptsDef
{PROPS}
CHECK_DEADLOCK FALSE
"""
PROPS = """INVARIANT LockBalanced
INVARIANT NoDuplicateInternalId
INVARIANT Linearizable
INVARIANT MutualExclusion
PROPERTY Termination"""
EMIT = """SPECIFICATION Spec
CONSTANTS
  Scenario = {Scenario}
  UseLock = TRUE
  Backend = "shared"
  Scripts <- ScriptsDef
CONSTRAINT EmitScenario
CHECK_DEADLOCK FALSE
"""


def mc(rep, scen, be, use_lock):
    cfg = tlc.write_cfg(CFG, {"Scenario": scen, "UseLock": "TRUE" if use_lock else "FALSE", "Backend": be, "PROPS": PROPS})
    try:
        r = tlc.run_tlc("MC_FimStoreConc", cfg, workers=8, want_printed=False, timeout=1800)
    finally:
        os.unlink(cfg)
    return r


def scenario_scripts(scen):
    cfg = tlc.write_cfg(EMIT, {"Scenario": scen})
    try:
        r = tlc.run_tlc("MC_FimStoreConc", cfg, workers=1, timeout=600, extra=["-simulate", "num=1", "-depth", "1"])
    finally:
        os.unlink(cfg)
    for p in r.printed:
        if isinstance(p, dict) and "scripts" in p:
            sc = p["scripts"]
            if isinstance(sc, dict):
                sc = [sc[k] for k in sorted(sc, key=int)]
            return [list(x) for x in sc]
    raise tlc.TLCError("scenario not emitted")


def _explore(args):
    be, scripts, bound, limit, rseed, rcount = args
    hs = sched.explore(be, scripts, bound, limit)
    if rcount:
        hs += sched.random_schedules(be, scripts, random.Random(rseed), rcount)
    return hs


def validate(rep, hists, label):
    for i, h in enumerate(hists):
        h["tid"] = i + 1
        h["steps"] = [0] * (sum(len(t) for t in h["threads"]) + len(h["events"]))   # size hint for batching only
    batches, cur, n = [], [], 0
    for h in hists:
        cur.append(h)
        n += len(h["steps"])
        if n > 40000:
            batches.append(cur)
            cur, n = [], 0
    if cur:
        batches.append(cur)
    import multiprocessing as mp
    jobs = [("Trace_FimStoreConc", "Trace_FimStoreConc.cfg", [{k: v for k, v in h.items() if k != "steps"} for h in b], 3, None)
            for b in batches]
    if len(jobs) == 1:
        outs = [pipeline._validate_batch(jobs[0])]
    else:
        with ProcessPoolExecutor(min(6, len(jobs)), mp_context=mp.get_context("fork")) as ex:
            outs = list(ex.map(pipeline._validate_batch, jobs, chunksize=1))
    acc, lock = set(), {}
    for printed, gen, dist, _w in outs:
        rep.extra["tlc_trace_states"] = rep.extra.get("tlc_trace_states", 0) + gen
        for p in printed:
            if isinstance(p, dict) and p.get("verdict") == "ACCEPT":
                acc.add(p["tid"])
            elif isinstance(p, dict) and p.get("verdict") == "LOCK":
                lock[p["tid"]] = p["clause"]
    missing = [h["tid"] for h in hists if h["tid"] not in lock]
    if missing:
        raise tlc.TLCError(f"{len(missing)} histories without a LOCK verdict")
    for h in hists:
        clause = None
        if lock[h["tid"]]:
            clause = "lock: " + lock[h["tid"]]
        elif h["tid"] not in acc:
            clause = "not linearizable: no sequential order of the calls explains outcomes and final content"
        if clause:
            rep.rejects.append(Reject("conc", h["backend"], "schedule", clause,
                                      {"threads": [[c["op"] for c in t] for t in h["threads"]], "decisions": h["decisions"]},
                                      0, {"final": h["final"], "outcomes": [[c["out"] for c in t] for t in h["threads"]],
                                          "events": h["events"][:80]}))
    rep.traces += len(hists)
    rep.lines += sum(len(h["events"]) for h in hists)
    rep.extra.setdefault("schedules", []).append({"label": label, "histories": len(hists)})
    if hists:
        h = hists[min(3, len(hists) - 1)]
        rep.add_sample({"backend": h["backend"], "threads": [[c["op"] for c in t] for t in h["threads"]],
                        "decisions": h["decisions"], "final": h["final"]})


def run(tier, seed):
    rep = Report("C20", tier, seed)
    quick = tier == "quick"
    scens = [1, 2, 3, 4, 5, 7]
    nonvac = []
    for be in ("shared", "disjoint"):
        for sc in ([1, 2, 3, 4, 7] if quick else scens):
            rep.add_mc(f"MC_FimStoreConc scenario={sc} backend={be}", mc(rep, sc, be, True), {"Scenario": sc, "Backend": be})
        # non-vacuity: without the lock the same model must break (reported, not a verdict)
        r = mc(rep, 3, be, False)
        nonvac.append({"backend": be, "scenario": 3, "without_lock": r.violation or "NO VIOLATION (vacuous?)"})
        if not r.violation:
            raise tlc.TLCError("non-vacuity demonstration failed: FimStoreConc without the lock satisfies all properties")
    rep.extra["non_vacuity"] = nonvac
    jobs = []
    for sc in [6] + scens:
        scripts = scenario_scripts(sc)
        nthr = len(scripts)
        for be in ("shared", "disjoint"):
            if sc == 6:
                jobs.append((be, scripts, 0, None, 0, 0))          # sequential: every operation incl. failing ones
            elif quick:
                jobs.append((be, scripts, 1 if nthr == 2 else 1, 600, seed + sc, 40))
            else:
                jobs.append((be, scripts, 2, 6000 if nthr == 2 else 4000, seed + sc, 600))
    import multiprocessing as mp
    with ProcessPoolExecutor(min(12, len(jobs)), mp_context=mp.get_context("fork")) as ex:
        res = list(ex.map(_explore, jobs, chunksize=1))
    hists = [h for r in res for h in r]
    validate(rep, hists, "bounded-preemption + random schedules on the real store classes")
    rep.extra["preemption_bound"] = 1 if quick else 2
    return rep
