"""Shared machinery of the store-layer properties (C01, C04, C05, C06)."""
import os
import random

from .. import tlc, pipeline
from ..core import Reject

MC_CFG = """SPECIFICATION Spec
CONSTANTS
  GIDS = {GIDS}
  NIDS = {NIDS}
  CLS = {CLS}
  RELS = {RELS}
  MaxDepth = {MaxDepth}
  WithQueries = {WithQueries}
  WithMerge = {WithMerge}
  Profile = "{Profile}"
  Seed = "{Seed}"
VIEW View
CONSTRAINT Bound
INVARIANT TypeOK
PROPERTY Isolation
PROPERTY CloneFaithful
PROPERTY ClassImmutable
PROPERTY IdentityKept
PROPERTY MergeKeepsEdges
PROPERTY FailureAtomic
CHECK_DEADLOCK FALSE
"""

GEN_CFG = """SPECIFICATION Spec
CONSTANTS
  GIDS = {GIDS}
  NIDS = {NIDS}
  CLS = {CLS}
  RELS = {RELS}
  MaxDepth = {MaxDepth}
  WithQueries = {WithQueries}
  WithMerge = {WithMerge}
  Profile = "{Profile}"
  Seed = "{Seed}"
VIEW View
CONSTRAINT Bound
ACTION_CONSTRAINT LogStep
CHECK_DEADLOCK FALSE
"""


def consts(gids, nids, cls=("K1", "K2"), rels=("r1", "r2"), depth=3, queries=True, merge=True, profile="full", seed="empty"):
    return {"GIDS": tlc.tla_set(gids), "NIDS": tlc.tla_set(nids), "CLS": tlc.tla_set(cls), "RELS": tlc.tla_set(rels),
            "MaxDepth": depth, "WithQueries": "TRUE" if queries else "FALSE", "WithMerge": "TRUE" if merge else "FALSE", "Profile": profile, "Seed": seed}


def model_check(rep, name, c, workers=16, timeout=3000):
    cfg = tlc.write_cfg(MC_CFG, c)
    try:
        r = tlc.run_tlc("MC_FimStore", cfg, workers=workers, want_printed=False, timeout=timeout)
    finally:
        os.unlink(cfg)
    rep.add_mc(name, r, c)
    return r


def generate(rep, name, c, timeout=3000):
    cfg = tlc.write_cfg(GEN_CFG, c)
    try:
        r = tlc.run_tlc("MC_FimStore", cfg, workers=1, timeout=timeout)
    finally:
        os.unlink(cfg)
    scripts, ntrans, nstates = pipeline.scripts_from_gen(r.printed)
    rep.extra.setdefault("generated", []).append({"name": name, "constants": c, "source_states": nstates,
                                                  "transitions_logged": ntrans, "scripts": len(scripts),
                                                  "tlc_wall_s": round(r.wall, 1)})
    return scripts


def run_and_validate(rep, scripts, variants, label, procs=16, batch_lines=15000, chunk=4000):
    """Execute scripts on the real backends and have TLC judge every line (in chunks, so that memory stays bounded)."""
    ntr = nlines = 0
    agg = {}
    first, all_verdicts = [], {}
    for c0 in range(0, max(1, len(scripts)), chunk):
        part = scripts[c0:c0 + chunk]
        if not part:
            break
        traces = pipeline.exec_scripts("harness.store_adapter", "run_script", part, variants, procs=procs)
        verdicts, stats = pipeline.validate_traces("Trace_FimStore", "Trace_FimStore.cfg", traces, batch_lines=batch_lines)
        for k, v in stats.items():
            agg[k] = (agg.get(k, 0) + v) if isinstance(v, (int, float)) else v
        ntr += len(traces)
        nlines += sum(len(t["steps"]) for t in traces)
        by_tid = {t["tid"]: t for t in traces}
        for tid, v in verdicts.items():
            t = by_tid[tid]
            for (line, clause) in v["rejects"]:
                op = t["steps"][line - 1]["op"]
                rep.rejects.append(Reject("store", t["backend"], op["op"], clause,
                                          [s["op"] for s in t["steps"][:line]], line,
                                          {"fmt": t.get("fmt"), "observed_out": t["steps"][line - 1]["out"],
                                           "observed_res": t["steps"][line - 1]["res"]}))
        if not first:
            first = traces[:2]
        if len(scripts) <= chunk:
            all_verdicts = verdicts
            last_traces = traces
    rep.traces += ntr
    rep.lines += nlines
    rep.extra.setdefault("validation", []).append(dict(agg, label=label, traces=ntr, lines=nlines))
    for t in first:
        rep.add_sample({"backend": t["backend"], "script": [s["op"] for s in t["steps"][:6]],
                        "observed": [[s["out"], s["res"]] for s in t["steps"][:6]]})
    return (last_traces if len(scripts) <= chunk and scripts else []), all_verdicts


# ------------------------------------------------------------------------------------------- random drivers
class RandomStoreOps:
    """Seeded random operation sequences over an alphabet larger than TLC's exhaustive one."""

    def __init__(self, rng, gids, nids, cls, rels, pnames, vals, weights=None, merge=True):
        self.r, self.gids, self.nids, self.cls, self.rels = rng, gids, nids, cls, rels
        self.pnames, self.vals, self.merge = pnames, vals, merge
        self.weights = weights or {}
        self.seen_nodes, self.seen_edges, self._rel_hint = [], [], None

    def props(self, extra=()):
        k = self.r.choice([0, 0, 1, 2])
        names = self.r.sample(self.pnames + list(extra), k=min(k, len(self.pnames) + len(extra)))
        return {p: self.r.choice(self.vals) for p in names}

    def op(self, have_doc, tampered=False):
        r = self.r
        g, h = r.choice(self.gids), r.choice(self.gids)
        n, a, b = r.choice(self.nids), r.choice(self.nids), r.choice(self.nids)
        # bias towards names that earlier operations of this script mentioned (no semantics: just the issued names)
        if self.seen_nodes and r.random() < 0.6:
            g, n = r.choice(self.seen_nodes)
            a = n
            same = [x for x in self.seen_nodes if x[0] == g]
            b = r.choice(same)[1]
        if self.seen_edges and r.random() < 0.5:
            g, a, b, self._rel_hint = r.choice(self.seen_edges)
        else:
            self._rel_hint = None
        h2 = r.choice([x for x in self.gids if x != g])   # merging a graph with itself is outside the interface
        table = [
            ("AddNode", 14, lambda: {"g": g, "n": n, "cls": r.choice(self.cls), "props": self.props()}),
            ("DeleteNode", 4, lambda: {"g": g, "n": n}),
            ("AddLink", 10, lambda: {"g": g, "a": a, "b": b, "rel": r.choice(self.rels), "props": self.props()}),
            ("UpdateNodeProp", 5, lambda: {"g": g, "n": n, "p": r.choice(self.pnames + ["Class"]), "v": r.choice(self.vals)}),
            ("UnsetNodeProp", 4, lambda: {"g": g, "n": n, "p": r.choice(self.pnames + ["Class", "NodeID", "GraphID", "Name", "Type"])}),
            ("UpdateNodesProp", 2, lambda: {"g": g, "p": r.choice(self.pnames + ["Class"]), "v": r.choice(self.vals)}),
            ("UpdateNodeProps", 3, lambda: {"g": g, "n": n, "props": self.props(extra=("Class",) if r.random() < .2 else ())}),
            ("UpdateLinkProp", 3, lambda: {"g": g, "a": a, "b": b, "kind": r.choice(self.rels), "p": r.choice(self.pnames + ["Class"]), "v": r.choice(self.vals)}),
            ("UnsetLinkProp", 3, lambda: {"g": g, "a": a, "b": b, "kind": r.choice(self.rels), "p": r.choice(self.pnames + ["Class"])}),
            ("UpdateLinkProps", 3, lambda: {"g": g, "a": a, "b": b, "kind": r.choice(self.rels), "props": self.props(extra=("Class",) if r.random() < .2 else ())}),
            ("DeleteGraph", 1, lambda: {"g": g}),
            ("DeleteAll", 0.2, lambda: {}),
            ("Export", 3, lambda: {"g": g}),
            ("Import", 3 if have_doc else 0, lambda: {"entry": r.choice(["string", "file"] if tampered else ["string", "file", "string_direct", "file_direct"]), "h": h}),
            ("Tamper", 0.6 if have_doc else 0, lambda: {"kind": r.choice(["drop_nodeid", "set_gid"]), "n": n, "g2": r.choice(self.gids + ["gX"])}),
            ("Clone", 2, lambda: {"g": g, "h": h}),
            ("MergeNodes", 2 if self.merge else 0, lambda: {"g": g, "n": n, "h": h2, "pol": r.choice([{}, {self.pnames[0]: "overwrite"}, {self.pnames[0]: "combine", "Name": "discard"}])}),
            ("GetNodeProps", 3, lambda: {"g": g, "n": n}),
            ("GetLinkProps", 3, lambda: {"g": g, "a": a, "b": b}),
            ("ListIds", 2, lambda: {"g": g}),
            ("ByClass", 2, lambda: {"g": g, "cls": r.choice(self.cls)}),
            ("ByClassType", 1, lambda: {"g": g, "cls": r.choice(self.cls), "t": r.choice(self.vals)}),
            ("NodeExists", 2, lambda: {"g": g, "n": n, "cls": r.choice(self.cls)}),
            ("CheckUnique", 1, lambda: {"g": g, "cls": r.choice(self.cls), "name": r.choice(self.vals)}),
            ("GraphExists", 1, lambda: {"g": g}),
        ]
        names = [t[0] for t in table]
        ws = [self.weights.get(t[0], t[1]) for t in table]
        i = r.choices(range(len(table)), weights=ws)[0]
        o = table[i][2]()
        o["op"] = names[i]
        if o["op"] == "AddNode":
            self.seen_nodes.append((o["g"], o["n"]))
        if o["op"] == "AddLink":
            self.seen_edges.append((o["g"], o["a"], o["b"], o["rel"]))
        if o["op"] in ("Clone",):
            self.seen_nodes += [(o["h"], x[1]) for x in self.seen_nodes if x[0] == o["g"]]
        # for link operations sometimes use the relation the link was created with, sometimes another one
        if "kind" in o and self._rel_hint and r.random() < 0.6:
            o["kind"] = self._rel_hint
        return o

    def script(self, length):
        s, have_doc, tampered = [], False, False
        self.seen_nodes, self.seen_edges = [], []
        for _ in range(length):
            o = self.op(have_doc, tampered)
            if o["op"] == "Export":
                have_doc, tampered = True, False   # may still be 'nograph'; the spec then predicts the import failure
            if o["op"] == "Tamper" and o["kind"] == "drop_nodeid":
                tampered = True    # direct imports document node ids as a precondition: not fed tampered documents
            s.append(o)
        return s
