"""Shared machinery of the topology-layer properties (C07, C08, C09, C10)."""
import os
import random

from .. import tlc, pipeline
from ..core import Reject

MC_CFG = """SPECIFICATION Spec
CONSTANTS
  Flavour = "{Flavour}"
  MaxDepth = {MaxDepth}
  Seed = "{Seed}"
  Profile = "{Profile}"
VIEW ViewMC
INVARIANT WhichRule
PROPERTY FailureAtomic
PROPERTY RemovalFrame
PROPERTY ValidateFrame
CHECK_DEADLOCK FALSE
"""
GEN_CFG = """SPECIFICATION Spec
CONSTANTS
  Flavour = "{Flavour}"
  MaxDepth = {MaxDepth}
  Seed = "{Seed}"
  Profile = "{Profile}"
VIEW View
CONSTRAINT Bound
ACTION_CONSTRAINT LogStep
CHECK_DEADLOCK FALSE
"""
TRACE_CFG = """SPECIFICATION Spec
CONSTANTS
  Flavour = "{Flavour}"
CHECK_DEADLOCK FALSE
"""


def consts(depth, seed="empty", profile="full", flavour="experiment"):
    return {"Flavour": flavour, "MaxDepth": depth, "Seed": seed, "Profile": profile}


def model_check(rep, name, c, timeout=3400):
    cfg = tlc.write_cfg(MC_CFG, c)
    try:
        r = tlc.run_tlc("MC_FimTopology", cfg, workers=16, want_printed=False, timeout=timeout)
    finally:
        os.unlink(cfg)
    rep.add_mc(name, r, c)
    return r


def together(parallel, *thunks):
    """run independent TLC jobs (model-checking / generation) side by side in the quick tier; results in call order"""
    if not parallel:
        return [t() for t in thunks]
    from concurrent.futures import ThreadPoolExecutor
    with ThreadPoolExecutor(4) as ex:
        futs = [ex.submit(t) for t in thunks]
        return [f.result() for f in futs]


def generate(rep, name, c, timeout=3400, keep=None, workers=1):
    """workers=1: deterministic and complete for the bound (thorough tier); workers>1: several times faster, but TLC's
    parallel search is not strictly breadth-first, so a few source states near the bound may be logged one level late
    (quick tier; every logged transition is still a genuine transition of the model)"""
    cfg = tlc.write_cfg(GEN_CFG, c)
    try:
        r = tlc.run_tlc("MC_FimTopology", cfg, workers=workers, timeout=timeout)
    finally:
        os.unlink(cfg)
    import json as _json
    printed = sorted((p for p in r.printed if isinstance(p, dict) and "op" in p),
                     key=lambda p: (len(p["path"]), _json.dumps(p, sort_keys=True)))
    if keep is not None:
        printed = [p for p in printed if isinstance(p, dict) and "op" in p and keep(p)]
    scripts, ntrans, nstates = pipeline.scripts_from_gen(printed, max_obs_per_script=250)
    rep.extra.setdefault("generated", []).append({"name": name, "constants": c, "source_states": nstates,
                                                  "transitions_logged": ntrans, "scripts": len(scripts),
                                                  "tlc_wall_s": round(r.wall, 1)})
    return scripts


EXTENSION_OPS = {"Navigate"}


def run_and_validate(rep, scripts, label, flavour="experiment", procs=16, batch_lines=6000, only_ops=None, chunk=1500):
    """in chunks of scripts so that memory stays bounded; returns the traces / verdicts of the LAST chunk"""
    out = ([], {})
    stats_sum = {}
    for c0 in range(0, max(1, len(scripts)), chunk):
        part = scripts[c0:c0 + chunk]
        if not part and c0 > 0:
            break
        out = _run_and_validate(rep, part, label, flavour, procs, batch_lines, only_ops)
    return out


def _run_and_validate(rep, scripts, label, flavour, procs, batch_lines, only_ops):
    traces = pipeline.exec_scripts("harness.topo_adapter", "run_script", scripts, [{"flavour": flavour}], procs=procs)
    cfg = tlc.write_cfg(TRACE_CFG, {"Flavour": flavour})
    try:
        verdicts, stats = pipeline.validate_traces("Trace_FimTopology", cfg, traces, batch_lines=batch_lines)
    finally:
        os.unlink(cfg)
    rep.traces += len(traces)
    nlines = sum(len(t["steps"]) for t in traces)
    rep.lines += nlines
    rep.extra.setdefault("validation", []).append(dict(stats, label=label, traces=len(traces), lines=nlines))
    by_tid = {t["tid"]: t for t in traces}
    for tid, v in verdicts.items():
        t = by_tid[tid]
        for (line, clause) in v["rejects"]:
            st = t["steps"][line - 1]
            if st["op"]["op"] in EXTENSION_OPS:
                # behaviour the specification covers beyond the listed properties: reported, never a verdict on a property
                b = rep.extra.setdefault("beyond_listed_properties", {"ops": sorted(EXTENSION_OPS), "mismatches": 0, "samples": []})
                b["mismatches"] += 1
                if len(b["samples"]) < 3:
                    b["samples"].append({"script": [s["op"] for s in t["steps"][:line]], "clause": clause, "observed": st["res"]})
                continue
            if only_ops is not None and not only_ops(st["op"], clause):
                rep.extra["rejections_left_to_other_checks"] = rep.extra.get("rejections_left_to_other_checks", 0) + 1
                continue
            rep.rejects.append(Reject("topo", flavour, st["op"]["op"], clause, [s["op"] for s in t["steps"][:line]], line,
                                      {"observed_out": st["out"], "observed_res": st["res"]}))
    nav = sum(1 for t in traces for s in t["steps"] if s["op"]["op"] in EXTENSION_OPS)
    b = rep.extra.setdefault("beyond_listed_properties", {"ops": sorted(EXTENSION_OPS), "mismatches": 0, "samples": []})
    b["lines_judged"] = b.get("lines_judged", 0) + nav
    for t in traces[:2]:
        rep.add_sample({"flavour": flavour, "script": [s["op"] for s in t["steps"][:6]],
                        "observed": [[s["out"], s["res"]] for s in t["steps"][:6]]})
    return traces, verdicts


# --------------------------------------------------------------------------------------------- random walks
class RandomTopoOps:
    """Seeded random building/removal calls; arguments are chosen among the names this script has used so far."""

    def __init__(self, rng, invalid_prob=0.15):
        self.r = rng
        self.invalid = invalid_prob

    def script(self, length):
        r = self.r
        nodes, comps, svcs, subs, facs, peers = [], {}, [], [], [], []
        s = []
        ifs = []          # node-side interface paths believed to exist
        models = {"nic2": ["p1", "p2"], "nic25": ["p1", "p2"], "nic1": ["p1"], "gpu": [], "fpga": ["p1", "p2"], "nvme": []}
        stypes = ["L2Bridge", "L2PTP", "L2STS", "FABNetv4", "FABNetv6", "L2Multisite", "L3VPN", "FABNetv4Ext"]
        for _ in range(length):
            k = r.random()
            bad = r.random() < self.invalid
            plain = [i for i in ifs if not i.rsplit("/", 1)[-1].startswith("sub") and i.count("/") >= 3]
            if plain and r.random() < 0.03:
                # renaming interfaces: two interfaces of one node may end up with one name (in different scopes)
                i = r.choice(plain)
                s.append({"op": "Rename", "p": i, "new": "data"})
                j = i.rsplit("/", 1)[0] + "/data"
                if j not in ifs:
                    ifs[ifs.index(i)] = j
                continue
            if k < 0.14 or not nodes:
                name = r.choice(["n1", "n2", "n3", "n4"]) if not bad else r.choice(nodes + ["!x"] if nodes else ["!x"])
                s.append({"op": "AddNode", "name": name, "site": r.choice(["S1", "S2", "S3"]), "ntype": r.choice(["VM", "VM", "Server"]),
                          "rp": r.choice([{}, {"Capacities": {"core": "i:2", "ram": "i:8", "disk": "i:10"}}])})
                if name not in nodes and not name.startswith("!"):
                    nodes.append(name)
            elif k < 0.30:
                n = r.choice(nodes)
                c = r.choice(["c1", "c2"])
                m = r.choice(list(models) + (["nosuch"] if bad else []))
                s.append({"op": "AddComponent", "n": n, "name": c, "model": m})
                if m in models and (n, c) not in comps:
                    comps[(n, c)] = m
                    suffix = "-l2p4" if m == "fpga" else "-l2ovs"
                    ifs += ["%s/%s/%s-%s%s/%s-%s" % (n, c, n, c, suffix, c, p) for p in models[m]]
            elif k < 0.42:
                name = r.choice(["s1", "s2", "s3"])
                cand = ifs + (["stale/iface"] if bad else [])
                chosen = r.sample(cand, k=min(len(cand), r.choice([0, 1, 2, 2, 3])))
                s.append({"op": "AddService", "name": name, "nstype": r.choice(stypes), "ifs": chosen,
                          "site": r.choice(["", "", "S1"]), "rp": {}})
                if name not in svcs:
                    svcs.append(name)
            elif k < 0.50 and svcs and ifs:
                s.append({"op": r.choice(["Connect", "Disconnect"]), "s": "svc:" + r.choice(svcs), "i": r.choice(ifs)})
            elif k < 0.55 and nodes:
                s.append({"op": "RemoveNode", "name": r.choice(nodes + ["zz"])})
            elif k < 0.60 and comps:
                n, c = r.choice(list(comps))
                s.append({"op": "RemoveComponent", "n": n, "name": c})
            elif k < 0.64 and svcs:
                s.append({"op": "RemoveService", "name": r.choice(svcs)})
            elif k < 0.68:
                f = r.choice(["f1", "f2"])
                fifs = r.choice([[], [], ["fa", "fb"], ["fa", "fb", "fc"], ["fa", "fb", "fa"]])
                s.append({"op": "AddFacility", "name": f, "site": r.choice(["S1", "S2"]),
                          "rp": r.choice([{}, {"Capacities": {"bw": "i:10"}}]), **({"ifs": fifs} if fifs else {})})
                if f not in facs and len(set(fifs)) == len(fifs):
                    facs.append(f)
                    for i in fifs or [f + "-int"]:
                        ifs.append("%s/%s-ns/%s" % (f, f, i))
            elif k < 0.70 and facs:
                s.append({"op": "RemoveFacility", "name": r.choice(facs + nodes[:1])})
            elif k < 0.74 and len(svcs) >= 2:
                a, b = r.sample(svcs, 2)
                s.append({"op": r.choice(["Peer", "Peer", "Unpeer"]), "a": "svc:" + a, "b": "svc:" + b})
            elif k < 0.80 and ifs:
                i = r.choice(ifs)
                nm = r.choice(["sub1", "sub2"])
                s.append({"op": "AddSubInterface", "i": i, "name": nm, "vlan": r.choice(["100", "200", ""] if bad else ["100", "200"])})
                ifs.append(i + "/" + nm)
            elif k < 0.83 and ifs:
                s.append({"op": "RemoveSubInterface", "i": r.choice(ifs), "name": r.choice(["sub1", "sub2"])})
            elif k < 0.86 and nodes:
                s.append({"op": "SetProp", "p": r.choice(nodes), "kind": "rp", "pname": "Capacities",
                          "val": {"core": "i:%d" % r.choice([1, 4]), "ram": "i:4"}})
            elif k < 0.88 and svcs:
                s.append({"op": "SetProp", "p": "svc:" + r.choice(svcs), "kind": "sp", "pname": "Site", "val": r.choice(["S1", "S2"])})
            elif k < 0.90:
                s.append({"op": "AddSwitch", "name": r.choice(["sw1"]), "site": "S1", "nports": 2})
                if "sw1" not in nodes:
                    nodes.append("sw1")
                    ifs += ["sw1/sw1-ns/p1", "sw1/sw1-ns/p2"]
            elif k < 0.93:
                s.append({"op": "Validate"})
            elif k < 0.97:
                s.append({"op": "Views"})
            elif svcs:
                s.append({"op": "HandleIfs", "p": "svc:" + r.choice(svcs)})
        s.append({"op": "Views"})
        return s
