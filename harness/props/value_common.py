"""Shared driver for value-level layers: MC cfg, Gen cfg, exec, validate."""
import os

from .. import tlc, pipeline
from ..core import Reject


def run_tlc_cfg(module, cfg_text, consts, workers=8, want_printed=False, timeout=3000, dfs=False):
    cfg = tlc.write_cfg(cfg_text, consts)
    try:
        return tlc.run_tlc(module, cfg, workers=workers, want_printed=want_printed, timeout=timeout, dfs=dfs)
    finally:
        os.unlink(cfg)


def gen_scripts(rep, name, module, cfg_text, consts, max_obs=400, timeout=3000, dfs=False):
    r = run_tlc_cfg(module, cfg_text, consts, workers=1, want_printed=True, timeout=timeout, dfs=dfs)
    scripts, ntrans, nstates = pipeline.scripts_from_gen(r.printed, max_obs_per_script=max_obs)
    rep.extra.setdefault("generated", []).append({"name": name, "constants": consts, "source_states": nstates,
                                                  "transitions_logged": ntrans, "scripts": len(scripts),
                                                  "tlc_wall_s": round(r.wall, 1)})
    return scripts


# operations the specification covers beyond the listed properties: judged, reported, never a verdict on a property
EXTENSION_OPS = {"Plug", "Unplug", "GetBQM"}


def run_and_validate(rep, layer, adapter_fn, trace_module, scripts, variants, label, variant_key=None, procs=16,
                     batch_lines=20000, extra_env=None):
    traces = pipeline.exec_scripts("harness.value_adapter" if "." not in adapter_fn else adapter_fn.rsplit(".", 1)[0],
                                   adapter_fn.rsplit(".", 1)[-1], scripts, variants, procs=procs)
    verdicts, stats = pipeline.validate_traces(trace_module, trace_module + ".cfg", traces, batch_lines=batch_lines,
                                               extra_env=extra_env)
    rep.traces += len(traces)
    nlines = sum(len(t["steps"]) for t in traces)
    rep.lines += nlines
    rep.extra.setdefault("validation", []).append(dict(stats, label=label, traces=len(traces), lines=nlines))
    by_tid = {t["tid"]: t for t in traces}
    for tid, v in verdicts.items():
        t = by_tid[tid]
        for (line, clause) in v["rejects"]:
            st = t["steps"][line - 1]
            if st["op"]["op"] in EXTENSION_OPS:
                b = rep.extra.setdefault("beyond_listed_properties", {"ops": sorted(EXTENSION_OPS), "mismatches": 0, "samples": []})
                b["mismatches"] += 1
                if len(b["samples"]) < 3:
                    b["samples"].append({"script": [s["op"] for s in t["steps"][:line]], "clause": clause, "observed": st["res"]})
                continue
            rep.rejects.append(Reject(layer, str(t.get(variant_key, "")) if variant_key else "", st["op"]["op"], clause,
                                      [s["op"] for s in t["steps"][:line]], line,
                                      {"observed_out": st["out"], "observed_res": st["res"],
                                       "variant": {k: t.get(k) for k in (variant_key,) if k}}))
    nx = sum(1 for t in traces for s in t["steps"] if s["op"]["op"] in EXTENSION_OPS)
    if nx:
        b = rep.extra.setdefault("beyond_listed_properties", {"ops": sorted(EXTENSION_OPS), "mismatches": 0, "samples": []})
        b["lines_judged"] = b.get("lines_judged", 0) + nx
    for t in traces[:2]:
        rep.add_sample({"script": [s["op"] for s in t["steps"][:5]], "observed": [[s["out"], s["res"]] for s in t["steps"][:5]]})
    return traces, verdicts
