"""Re-execute a replay file against /repo (or $VERIF_REPO) and have TLC judge it again:
       python -m harness.replay /verif/replays/<file>.json [-v]
"""
import json
import os
import sys

LAYERS = {
    "store": ("harness.store_adapter", "run_script", "Trace_FimStore", "Trace_FimStore.cfg", "backend"),
    "topo": ("harness.topo_adapter", "run_script", "Trace_FimTopology", "Trace_FimTopology.cfg", "flavour"),
    "adm": ("harness.adm_adapter", "run_script", "Trace_FimADM", "Trace_FimADM.cfg", None),
    "capacity": ("harness.value_adapter", "run_capacity_script", "Trace_FimCapacity", "Trace_FimCapacity.cfg", "scale"),
    "catalog": ("harness.value_adapter", "run_catalog_script", "Trace_FimCatalog", "Trace_FimCatalog.cfg", None),
    "cbm": ("harness.cbm_adapter", "run_script", "Trace_FimCBM", "Trace_FimCBM.cfg", None),
    "codec": ("harness.value_adapter", "run_codec_script", "Trace_FimCodec", "Trace_FimCodec.cfg", None),
    "domain": ("harness.domain_adapter", "run_script", "Trace_FimDomains", "Trace_FimDomains.cfg", None),
    "cypher": ("harness.cypher_adapter", "run_script", "Trace_FimCypher", "Trace_FimCypher.cfg", None),
    "conv": ("harness.conv_adapter", "run_script", "Trace_FimSliverConv", "Trace_FimSliverConv.cfg", None),
    "delegation": ("harness.value_adapter", "run_delegation_script", "Trace_FimDelegation", "Trace_FimDelegation.cfg", "variant"),
    "sliverdiff": ("harness.diff_adapter", "run_script", "Trace_FimSliverDiff", "Trace_FimSliverDiff.cfg", None),
}


def main():
    sys.path.insert(0, os.environ.get("VERIF_REPO", "/repo"))
    from harness import pipeline
    path = sys.argv[1]
    d = json.load(open(path))
    layer = d["sig"]["layer"]
    if layer == "conc":
        from harness import sched, core
        from harness.props import c20
        dec = {int(k): v for k, v in d["script"]["decisions"].items()}
        hist, _ = sched.execute(d["sig"]["variant"], d["script"]["threads"], dec)
        print(json.dumps(hist, indent=1)[:6000])
        rep = core.Report("C20", "replay", 0)
        c20.validate(rep, [hist], "replay")
        print("rejects:", [(r.clause) for r in rep.rejects])
        sys.exit(1 if rep.rejects else 0)
    mod, fn, tmod, tcfg, vkey = LAYERS[layer]
    variant = {vkey: d["sig"]["variant"]} if vkey else {}
    if vkey in ("scale",):
        variant[vkey] = int(variant[vkey])
    if d.get("detail", {}).get("fmt"):
        variant["fmt"] = d["detail"]["fmt"]
    traces = pipeline.exec_scripts(mod, fn, [d["script"]], [variant], procs=1)
    if layer == "topo":
        from harness import tlc
        from harness.props import topo_common
        tcfg = tlc.write_cfg(topo_common.TRACE_CFG, {"Flavour": d["sig"]["variant"]})
    verdicts, _ = pipeline.validate_traces(tmod, tcfg, traces)
    v = verdicts[traces[0]["tid"]]
    t = traces[0]
    for i, s in enumerate(t["steps"], 1):
        if "-v" in sys.argv or i >= len(t["steps"]) - 2:
            print(i, json.dumps(s["op"]), "->", s["out"], json.dumps(s["res"]))
            if "-v" in sys.argv or i == len(t["steps"]):
                print("    state:", json.dumps(s["state"]))
    print("rejects:", v["rejects"])
    sys.exit(1 if v["rejects"] else 0)


if __name__ == "__main__":
    main()
