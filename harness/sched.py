"""Deterministic thread scheduler for C20 (CHESS-style bounded-preemption exploration of the REAL store classes).

* real threading.Thread objects run the store operations;
* sys.settrace yields to the scheduler at every source line of the store modules
  (networkx_property_graph.py, networkx_property_graph_disjoint.py, networkx_mixin.py);
* storage.lock is replaced at run time by an instrumented lock with the same interface which never blocks the OS
  thread: a failed acquire parks the thread in the scheduler; every acquire/release is logged with a global
  sequence number;
* a schedule is a set of preemption decisions {yield-point index -> thread to run next}; without a decision the
  running thread continues (non-preemptive), so executions are deterministic and replayable.
Nothing here judges anything: the recorded history is validated by spec/Trace_FimStoreConc.tla.
"""
import os
import sys
import threading

import networkx as nx

STORE_FILES = ("networkx_property_graph.py", "networkx_property_graph_disjoint.py", "networkx_mixin.py")


class Abort(Exception):
    pass


class Sched:
    def __init__(self, nthreads, decisions):
        self.n = nthreads
        self.decisions = dict(decisions)
        self.sems = [threading.Semaphore(0) for _ in range(nthreads)]
        self.state = ["ready"] * nthreads     # ready | blocked | done
        self.current = None
        self.step = 0
        self.seq = 0
        self.events = []
        self.steps = []                       # per yield point: (running tid, tuple(runnable))
        self.deadlock = False
        self.main = threading.Semaphore(0)
        self.tls = threading.local()

    # ---------------------------------------------------------------- logging
    def log(self, thr, ev, **kw):
        self.seq += 1
        d = {"seq": self.seq, "thr": thr, "ev": ev}
        d.update(kw)
        self.events.append(d)
        return self.seq

    def me(self):
        return self.tls.tid

    def runnable(self):
        return [i for i in range(self.n) if self.state[i] == "ready"]

    # ---------------------------------------------------------------- switching
    def _switch_to(self, me, other):
        self.current = other
        self.sems[other].release()
        self.sems[me].acquire()
        if self.deadlock:
            raise Abort()

    def yield_point(self, me):
        if self.deadlock:
            raise Abort()
        self.step += 1
        run = self.runnable()
        self.steps.append((me, tuple(run)))
        tgt = self.decisions.get(self.step)
        if tgt is not None and tgt != me and tgt in run:
            self._switch_to(me, tgt)

    def block(self, me):
        """current thread cannot proceed (lock held by someone else)"""
        self.state[me] = "blocked"
        run = self.runnable()
        if not run:
            self._deadlock()
            raise Abort()
        self._switch_to(me, run[0])

    def unblock_all(self):
        for i in range(self.n):
            if self.state[i] == "blocked":
                self.state[i] = "ready"

    def finish(self, me):
        self.state[me] = "done"
        run = self.runnable()
        if run:
            self.current = run[0]
            self.sems[run[0]].release()
        elif any(s == "blocked" for s in self.state):
            self._deadlock()
        else:
            self.main.release()

    def _deadlock(self):
        self.deadlock = True
        self.log(-1, "deadlock")
        for i in range(self.n):
            if self.state[i] == "blocked":
                self.sems[i].release()
        self.main.release()


class ILock:
    """Stand-in for threading.Lock with the same observable interface."""

    def __init__(self, sched):
        self.s = sched
        self.holder = None

    def acquire(self, blocking=True, timeout=-1):
        me = self.s.me()
        while self.holder is not None:
            if not blocking:
                return False
            self.s.block(me)
        self.holder = me
        self.s.log(me, "acq")
        return True

    def release(self):
        me = self.s.me()
        if self.holder is None:
            self.s.log(me, "relerr")
            raise RuntimeError("release unlocked lock")
        self.s.log(me, "rel", holder=self.holder)
        self.holder = None
        self.s.unblock_all()

    def locked(self):
        return self.holder is not None

    __enter__ = acquire

    def __exit__(self, *a):
        self.release()


def _payload(o, direct):
    g = nx.Graph()
    labels = o["labels"]
    for i, lab in enumerate(labels):
        attrs = {"Class": "K", "NodeID": lab}
        if o.get("bad", 0) == i + 1:
            del attrs["NodeID"]
        if direct:
            attrs["GraphID"] = o["g"]
        g.add_node("k%d" % i, **attrs)
    for i in range(len(labels) - 1):
        g.add_edge("k%d" % i, "k%d" % (i + 1), Class="r")
    return g


def _do(storage, o):
    op = o["op"]
    if op == "add_graph":
        storage.add_graph(o["g"], _payload(o, False))
        return []
    if op == "add_graph_direct":
        storage.add_graph_direct(o["g"], _payload(o, True))
        return []
    if op == "del_graph":
        storage.del_graph(o["g"])
        return []
    if op == "del_all":
        storage.del_all_graphs()
        return []
    if op == "add_blank":
        storage.add_blank_node_to_graph(o["g"], Class="K", NodeID=o["label"])
        return []
    if op == "del_node":
        # the property graph's delete_node on top of the store (lock-free in the library)
        from fim.graph import networkx_property_graph as a
        from fim.graph import networkx_property_graph_disjoint as b
        if type(storage).__module__.endswith("disjoint"):
            pg = b.NetworkXPropertyGraphDisjoint(graph_id=o["g"], importer=b.NetworkXGraphImporterDisjoint())
        else:
            pg = a.NetworkXPropertyGraph(graph_id=o["g"], importer=a.NetworkXGraphImporter())
        assert pg.storage.lock is storage.lock, "the property graph does not sit on the instrumented store"
        pg.delete_node(node_id=o["label"])
        return []
    if op == "get_graph":
        storage.get_graph(o["g"])
        return []
    if op == "extract":
        g = storage.extract_graph(o["g"])
        return [] if g is None else sorted(str(d.get("NodeID")) for _, d in g.nodes(data=True))
    raise ValueError(op)


def fresh_storage(backend):
    from fim.graph import networkx_property_graph as a
    from fim.graph import networkx_property_graph_disjoint as b
    if backend == "shared":
        a.NetworkXGraphStorage.storage_instance = None
        return a.NetworkXGraphStorage().storage_instance
    b.NetworkXGraphStorageDisjoint.storage_instance = None
    return b.NetworkXGraphStorageDisjoint().storage_instance


def content(storage, backend):
    out = {}
    graphs = [storage.graphs] if backend == "shared" else list(storage.graphs.values())
    n_iids = 0
    for gr in graphs:
        for _, d in gr.nodes(data=True):
            n_iids += 1
            out.setdefault(str(d.get("GraphID")), []).append(str(d.get("NodeID")))
    return {g: sorted(v) for g, v in out.items()}


def execute(backend, scripts, decisions):
    """Run one schedule.  scripts: list (per thread) of lists of ops.  Returns the recorded history."""
    storage = fresh_storage(backend)
    s = Sched(len(scripts), decisions)
    storage.lock = ILock(s)
    calls = [[None] * len(sc) for sc in scripts]

    def tracer(frame, event, arg):
        fn = frame.f_code.co_filename
        if not fn.endswith(STORE_FILES):
            # a call from store code into other Python code (networkx, a default factory building a graph object ...):
            # one yield point on entry, nothing inside is traced
            if event == "call" and frame.f_back is not None and frame.f_back.f_code.co_filename.endswith(STORE_FILES) \
                    and getattr(s.tls, "tid", None) is not None:
                s.yield_point(s.tls.tid)
            return None

        def local(frame, event, arg):
            if event == "line":
                s.yield_point(s.tls.tid)
            return local
        return local

    def body(tid):
        s.tls.tid = tid
        s.sems[tid].acquire()
        sys.settrace(tracer)
        try:
            for i, o in enumerate(scripts[tid]):
                c = s.log(tid, "call", op=i)
                try:
                    res = _do(storage, o)
                    out = "ok"
                except Abort:
                    raise
                except Exception as e:  # noqa
                    res, out = [], type(e).__name__
                r = s.log(tid, "ret", op=i, out=out, free=(o["op"] == "del_node" or (o["op"] == "get_graph" and backend == "shared")))
                calls[tid][i] = {"call": c, "ret": r, "out": out, "res": res}
        except Abort:
            pass
        finally:
            sys.settrace(None)
            if not s.deadlock:
                s.finish(tid)

    ths = [threading.Thread(target=body, args=(i,), daemon=True) for i in range(len(scripts))]
    for t in ths:
        t.start()
    s.current = 0
    s.sems[0].release()
    s.main.acquire()
    for t in ths:
        t.join(timeout=5)
    lock_left = storage.lock.locked()
    hist = {"backend": backend,
            "threads": [[dict(op=o, **(calls[t][i] or {"call": 0, "ret": 0, "out": "unfinished", "res": []}))
                         for i, o in enumerate(sc)] for t, sc in enumerate(scripts)],
            "events": [{"seq": e["seq"], "thr": e["thr"] + 1, "ev": e["ev"], "free": bool(e.get("free"))} for e in s.events
                       if e["ev"] in ("acq", "rel", "relerr", "call", "ret", "deadlock")],
            "final": content(storage, backend), "lock_left_held": bool(lock_left), "deadlock": s.deadlock,
            "decisions": {str(k): v for k, v in decisions.items()}}
    return hist, s.steps


def explore(backend, scripts, bound, limit=None):
    """All schedules with at most `bound` preemptions (depth-first over decision prefixes)."""
    out = []
    stack = [dict()]
    seen = 0
    while stack:
        dec = stack.pop()
        hist, steps = execute(backend, scripts, dec)
        out.append(hist)
        seen += 1
        if limit and seen >= limit:
            break
        if len(dec) >= bound:
            continue
        last = max(dec) if dec else 0
        for idx in range(last + 1, len(steps) + 1):
            me, run = steps[idx - 1]
            for u in run:
                if u != me:
                    d2 = dict(dec)
                    d2[idx] = u
                    stack.append(d2)
    return out


def random_schedules(backend, scripts, rng, count, pmax=6):
    out = []
    base, steps = execute(backend, scripts, {})
    n = max(len(steps), 1)
    nthr = len(scripts)
    for _ in range(count):
        k = rng.randint(1, pmax)
        dec = {rng.randint(1, n): rng.randrange(nthr) for _ in range(k)}
        hist, _ = execute(backend, scripts, dec)
        out.append(hist)
    return out
