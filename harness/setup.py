"""MANIFEST.setup_cmd: parse every specification with SANY and import-check the harness (offline, seconds)."""
import glob
import os
import sys

from . import tlc


def main():
    sys.path.insert(0, os.environ.get("VERIF_REPO", "/repo"))
    bad = 0
    for f in sorted(glob.glob(os.path.join(tlc.SPEC_DIR, "*.tla"))):
        ok, out = tlc.sany(os.path.basename(f))
        print(("ok   " if ok else "FAIL ") + os.path.basename(f))
        if not ok:
            bad += 1
            print(out[-1500:])
    import importlib
    for m in sorted(glob.glob(os.path.join(os.path.dirname(__file__), "props", "c*.py"))):
        importlib.import_module("harness.props." + os.path.basename(m)[:-3])
    os.makedirs(os.path.join(os.path.dirname(tlc.SPEC_DIR), "evidence"), exist_ok=True)
    sys.exit(1 if bad else 0)


if __name__ == "__main__":
    main()
