"""Adapter between abstract FimStore operations (spec/FimStore.tla) and the real in-memory backends.

Only three things happen here: concretise an abstract operation into the public FIM call, run it, and project the
real store back to the abstract state.  No expected value is computed in Python.
"""
import json
import os
import tempfile

import networkx as nx

from fim.graph.abc_property_graph import ABCPropertyGraph, GraphFormat
from fim.graph import networkx_property_graph as nxpg
from fim.graph import networkx_property_graph_disjoint as nxpgd

IDENT = ("GraphID", "NodeID", "Class")


# ---------------------------------------------------------------------------------------------- value classes (C01)
# Abstract value classes "s:@name" are concretised into adversarial strings (several candidates per class, chosen by
# the seed).  The reverse table only NAMES what is observed: the concrete string of class @x is named "s:@x", its
# end-of-line-normalised form "s:@x~lf"; anything else stays a raw "s:<text>" token (and so differs from any class).
VALUE_CLASSES = {
    "plain": ["abc", "node-1", "RENC-w1"],
    "quote": ["a\"b'c", "'", "say \"hi\"", "\"\""],
    "markup": ["<a&b>", "]]>", "&amp;", "<!-- x -->", "<data key=\"d0\">x</data>"],
    "nonascii": ["h\u00e9llo", "\u2713 \u65e5\u672c", "\u00df\U0001F600"],
    "lead": ["  x", " y", "\tz"],
    "trail": ["x  ", "y ", "z\t"],
    "empty": [""],
    "blank": [" ", "   "],
    "jsontext": ['{"a": [1, "x"]}', '[]', '{"core": 2, "ram": 6}'],
    "nl": ["a\nb", "\n", "x\n"],
    "cr": ["c\rd", "c\r"],
    "crlf": ["e\r\nf", "\r\ng"],
    "numeric": ["5", "007", "1e3", "-0"],
    "boolish": ["true", "False", "None"],
}
_CLASS_PRED = {
    "quote": lambda s: '"' in s or "'" in s, "markup": lambda s: any(c in s for c in "<>&"),
    "nonascii": lambda s: any(ord(c) > 127 for c in s), "lead": lambda s: s[:1].isspace() and not s[-1:].isspace(),
    "trail": lambda s: s[-1:].isspace() and not s[:1].isspace(), "empty": lambda s: s == "",
    "blank": lambda s: s != "" and s.strip() == "", "nl": lambda s: "\n" in s and "\r" not in s,
    "cr": lambda s: "\r" in s and "\n" not in s, "crlf": lambda s: "\r\n" in s,
}
_CONC, _REV = {}, {}


def set_value_seed(seed):
    import random as _r
    rng = _r.Random(seed)
    _CONC.clear()
    _REV.clear()
    for name, cands in VALUE_CLASSES.items():
        c = rng.choice(cands)
        assert _CLASS_PRED.get(name, lambda s: True)(c), (name, c)
        _CONC["@" + name] = c
    for name, c in _CONC.items():
        assert c not in _REV, "value classes must be pairwise distinct"
        _REV[c] = name
    for name, c in list(_CONC.items()):
        lf = c.replace("\r\n", "\n").replace("\r", "\n")
        if lf != c and lf not in _REV:
            _REV[lf] = name + "~lf"


_USE_CLASSES = [False]      # value-class naming is only active in runs that use class tokens (C01)


def tok(v):
    """real property value -> opaque token compared by the spec"""
    if _USE_CLASSES[0] and isinstance(v, str) and v in _REV:
        return "s:" + _REV[v]
    if isinstance(v, bool):
        return "b:true" if v else "b:false"
    if isinstance(v, str):
        return "s:" + v
    if isinstance(v, int):
        return "i:%d" % v
    if isinstance(v, float):
        return "f:%r" % v
    if v is None:
        return "none"
    if isinstance(v, (list, tuple)):
        return "[" + ",".join(tok(x) for x in v) + "]"
    if isinstance(v, dict):
        return "{" + ",".join("%s=%s" % (tok(k), tok(v[k])) for k in sorted(v, key=repr)) + "}"
    return "o:" + type(v).__name__


def untok(t):
    if t.startswith("s:@"):
        return _CONC[t[2:]]
    if t.startswith("s:"):
        return t[2:]
    if t.startswith("i:"):
        return int(t[2:])
    if t.startswith("b:"):
        return t == "b:true"
    if t.startswith("f:"):
        return float(t[2:])
    raise ValueError("cannot concretise token %r" % (t,))


def untok_props(props):
    if not props:
        return {}
    return {k: untok(v) for k, v in props.items()}


def tamper(doc, kind, nid, g2):
    """Edit the serialised text outside FIM (plain networkx / json): drop one node's NodeID or restamp its GraphID."""
    if doc is None:
        return doc
    try:
        data = json.loads(doc)
        isjson = True
    except ValueError:
        isjson = False
    if isjson:
        for nd in data.get("nodes", []):
            if nd.get("NodeID") == nid:
                if kind == "drop_nodeid":
                    del nd["NodeID"]
                else:
                    nd["GraphID"] = g2
                break
        return json.dumps(data)
    g = nx.parse_graphml(doc)
    for n in list(g.nodes):
        if g.nodes[n].get("NodeID") == nid:
            if kind == "drop_nodeid":
                del g.nodes[n]["NodeID"]
            else:
                g.nodes[n]["GraphID"] = g2
            break
    return "\n".join(nx.generate_graphml(g))


def read_back(doc, fmtname):
    """Read the serialised text WITHOUT FIM (plain networkx, lxml for the label markup) into the document view."""
    nodes, edges = [], []
    if fmtname == "graphml":
        from lxml import etree
        g = nx.parse_graphml(doc)
        ns = {"g": "http://graphml.graphdrawing.org/xmlns"}
        tree = etree.fromstring(doc.encode("utf-8"))
        nlab = {n.get("id"): n.get("labels") for n in tree.findall("./g:graph/g:node", ns)}
        elab = {}
        for e in tree.findall("./g:graph/g:edge", ns):
            elab[frozenset((e.get("source"), e.get("target")))] = e.get("label")
    else:
        g = nx.readwrite.node_link_graph(json.loads(doc))
        nlab, elab = None, None
    if len(g.nodes) == 0:
        return "nograph"
    for k, d in g.nodes(data=True):
        nodes.append({"n": str(d.get("NodeID")), "cls": str(d.get("Class")), "gid": str(d.get("GraphID")),
                      "labels": "-" if nlab is None else str(nlab.get(str(k))),
                      "props": {p: tok(v) for p, v in d.items() if p not in IDENT}})
    for u, v, d in g.edges(data=True):
        edges.append({"ends": sorted({str(g.nodes[u].get("NodeID")), str(g.nodes[v].get("NodeID"))}),
                      "cls": str(d.get("Class")), "label": "-" if elab is None else str(elab.get(frozenset((str(u), str(v))))),
                      "props": {p: tok(x) for p, x in d.items() if p != "Class"}})
    nodes.sort(key=lambda r: r["n"])
    edges.sort(key=lambda r: r["ends"])
    return {"nodes": nodes, "edges": edges}


class StoreRunner:
    """One fresh store of the chosen flavour; executes abstract ops through the public API."""

    def __init__(self, backend="shared", fmt="graphml"):
        self.backend = backend
        self.fmt = fmt
        if backend == "shared":
            nxpg.NetworkXGraphStorage.storage_instance = None
            self.imp = nxpg.NetworkXGraphImporter()
            self.cls = nxpg.NetworkXPropertyGraph
        else:
            nxpgd.NetworkXGraphStorageDisjoint.storage_instance = None
            self.imp = nxpgd.NetworkXGraphImporterDisjoint()
            self.cls = nxpgd.NetworkXPropertyGraphDisjoint
        self.storage = self.imp.storage.storage_instance
        self.doc = None
        self.handles = {}

    # ----------------------------------------------------------------- handles
    def G(self, gid):
        h = self.handles.get(gid)
        if h is None:
            h = self.cls(graph_id=gid, importer=self.imp)
            self.handles[gid] = h
        return h

    # ----------------------------------------------------------------- projection
    def project(self):
        nodes, edges, dup = [], [], []
        seen = set()
        if self.backend == "shared":
            views = [self.storage.graphs]
        else:
            views = [g for _, g in sorted(self.storage.graphs.items(), key=lambda kv: repr(kv[0]))]
        iids = []
        for graph in views:
            for iid, d in graph.nodes(data=True):
                iids.append(iid)
                gid, nid = d.get("GraphID"), d.get("NodeID")
                key = (tok(gid)[2:] if isinstance(gid, str) else tok(gid), tok(nid)[2:] if isinstance(nid, str) else tok(nid))
                if key in seen:
                    dup.append(list(key))
                    continue
                seen.add(key)
                nodes.append({"g": key[0], "n": key[1], "cls": d.get("Class") if isinstance(d.get("Class"), str) else tok(d.get("Class")),
                              "props": {k: tok(v) for k, v in d.items() if k not in IDENT}})
            for u, v, d in graph.edges(data=True):
                du, dv = graph.nodes[u], graph.nodes[v]
                ends = sorted([[str(du.get("GraphID")), str(du.get("NodeID"))], [str(dv.get("GraphID")), str(dv.get("NodeID"))]])
                edges.append({"ends": ends, "cls": d.get("Class") if isinstance(d.get("Class"), str) else tok(d.get("Class")),
                              "props": {k: tok(x) for k, x in d.items() if k != "Class"}})
        nodes.sort(key=lambda r: (r["g"], r["n"]))
        edges.sort(key=lambda r: r["ends"])
        st = {"nodes": nodes, "edges": edges, "dup": dup}
        # allocator facts (C04: no two stored nodes share an internal identity; the allocator stays ahead)
        if self.backend == "shared":
            st["alloc_ok"] = all(isinstance(i, int) and i < self.storage.start_id for i in iids)
        else:
            ok = True
            for gid, g in self.storage.graphs.items():
                nxt = self.storage.graph_node_ids[gid] if gid in self.storage.graph_node_ids else 1
                ok = ok and all(isinstance(i, int) and i < nxt for i in g.nodes)
            st["alloc_ok"] = ok
        st["lock_free"] = not self.storage.lock.locked()
        if not st["lock_free"]:
            self.storage.lock.release()   # keep the run going; the leaked lock has been recorded
        return st

    # ----------------------------------------------------------------- execution
    def apply(self, o):
        try:
            res = self._dispatch(o)
            return "ok", res
        except Exception as e:  # noqa: the exception class is the observation
            return type(e).__name__, {"k": "none"}

    @staticmethod
    def _ids(lst):
        return {"k": "list", "v": sorted(lst)}

    def _dispatch(self, o):
        op = o["op"]
        none = {"k": "none"}
        if op == "AddNode":
            self.G(o["g"]).add_node(node_id=o["n"], label=o["cls"], props=untok_props(o.get("props")) or None)
            return none
        if op == "DeleteNode":
            self.G(o["g"]).delete_node(node_id=o["n"])
            return none
        if op == "AddLink":
            self.G(o["g"]).add_link(node_a=o["a"], rel=o["rel"], node_b=o["b"], props=untok_props(o.get("props")) or None)
            return none
        if op == "UpdateNodeProp":
            self.G(o["g"]).update_node_property(node_id=o["n"], prop_name=o["p"], prop_val=untok(o["v"]))
            return none
        if op == "UnsetNodeProp":
            self.G(o["g"]).unset_node_property(node_id=o["n"], prop_name=o["p"])
            return none
        if op == "UpdateNodesProp":
            self.G(o["g"]).update_nodes_property(prop_name=o["p"], prop_val=untok(o["v"]))
            return none
        if op == "UpdateNodeProps":
            self.G(o["g"]).update_node_properties(node_id=o["n"], props=untok_props(o["props"]))
            return none
        if op == "UpdateLinkProp":
            self.G(o["g"]).update_link_property(node_a=o["a"], node_b=o["b"], kind=o["kind"], prop_name=o["p"],
                                                prop_val=untok(o["v"]))
            return none
        if op == "UnsetLinkProp":
            self.G(o["g"]).unset_link_property(node_a=o["a"], node_b=o["b"], kind=o["kind"], prop_name=o["p"])
            return none
        if op == "UpdateLinkProps":
            self.G(o["g"]).update_link_properties(node_a=o["a"], node_b=o["b"], kind=o["kind"],
                                                  props=untok_props(o["props"]))
            return none
        if op == "DeleteGraph":
            self.G(o["g"]).delete_graph()
            return none
        if op == "DeleteAll":
            self.imp.delete_all_graphs()
            return none
        if op == "Export":
            fmt = GraphFormat.GRAPHML if o.get("fmt", self.fmt) == "graphml" else GraphFormat.JSON_NODELINK
            self.doc = self.G(o["g"]).serialize_graph(format=fmt)
            return {"k": "str", "v": "nograph" if self.doc is None else "text"}
        if op == "ExportDoc":
            fmtname = o.get("fmt", self.fmt)
            fmt = GraphFormat.GRAPHML if fmtname == "graphml" else GraphFormat.JSON_NODELINK
            doc = self.G(o["g"]).serialize_graph(format=fmt)
            if doc is None:
                self.doc = None
                return {"k": "str", "v": "nograph"}
            self.doc = doc
            return {"k": "doc", "v": read_back(doc, fmtname)}
        if op == "Validate":
            self.G(o["g"]).validate_graph()
            return none
        if op == "Tamper":
            self.doc = tamper(self.doc, o["kind"], o["n"], o.get("g2"))
            return none
        if op == "Import":
            entry = o["entry"]
            doc = self.doc if self.doc is not None else ""   # nothing exported (or "graph not found"): empty text
            if entry == "string":
                g = self.imp.import_graph_from_string(graph_string=doc, graph_id=o["h"])
            elif entry == "string_direct":
                g = self.imp.import_graph_from_string_direct(graph_string=doc)
            else:
                fd, name = tempfile.mkstemp(prefix="vh-import-", suffix=".graph")
                try:
                    with os.fdopen(fd, "w") as f:
                        f.write(doc)
                    if entry == "file":
                        g = self.imp.import_graph_from_file(graph_file=name, graph_id=o["h"])
                    else:
                        g = self.imp.import_graph_from_file_direct(graph_file=name)
                finally:
                    os.unlink(name)
            return {"k": "str", "v": g.graph_id}
        if op == "Clone":
            self.G(o["g"]).clone_graph(new_graph_id=o["h"])
            return none
        if op == "MergeNodes":
            pol = dict(o.get("pol") or {})
            self.G(o["g"]).merge_nodes(node_id=o["n"], other_graph=self.G(o["h"]), merge_properties=pol or None)
            return none
        if op == "GetNodeProps":
            labels, props = self.G(o["g"]).get_node_properties(node_id=o["n"])
            return {"k": "rec", "v": {"cls": list(labels), "props": {k: tok(v) for k, v in props.items()}}}
        if op == "GetLinkProps":
            kind, props = self.G(o["g"]).get_link_properties(node_a=o["a"], node_b=o["b"])
            return {"k": "rec", "v": {"cls": kind, "props": {k: tok(v) for k, v in props.items()}}}
        if op == "ListIds":
            return self._ids(self.G(o["g"]).list_all_node_ids())
        if op == "ByClass":
            return self._ids(self.G(o["g"]).get_all_nodes_by_class(label=o["cls"]))
        if op == "ByClassType":
            return self._ids(self.G(o["g"]).get_all_nodes_by_class_and_type(label=o["cls"], ntype=untok(o["t"])))
        if op == "NodeExists":
            return {"k": "bool", "v": bool(self.G(o["g"]).node_exists(node_id=o["n"], label=o["cls"]))}
        if op == "CheckUnique":
            return {"k": "bool", "v": bool(self.G(o["g"]).check_node_unique(label=o["cls"], name=untok(o["name"])))}
        if op == "GraphExists":
            return {"k": "bool", "v": bool(self.G(o["g"]).graph_exists())}
        if op == "FindMatching":
            return self._ids(list(self.G(o["g"]).find_matching_nodes(other_graph=self.G(o["h"]))))
        if op == "StitchNodes":
            return self._ids(self.G(o["g"]).get_stitch_nodes())
        if op == "FirstNbr":
            return self._ids(self.G(o["g"]).get_first_neighbor(node_id=o["n"], rel=o["rel"], node_label=o["cls"]))
        if op == "SecondNbr":
            r = self.G(o["g"]).get_first_and_second_neighbor(node_id=o["n"], rel1=o["r1"], node1_label=o["c1"],
                                                             rel2=o["r2"], node2_label=o["c2"])
            return {"k": "list", "v": sorted([list(x) for x in r])}
        if op == "ShortestPath":
            r = self.G(o["g"]).get_nodes_on_shortest_path(node_a=o["a"], node_z=o["z"], rel=o["rel"] or None)
            return {"k": "list", "v": list(r)}
        if op == "PathWithHops":
            r = self.G(o["g"]).get_nodes_on_path_with_hops(node_a=o["a"], node_z=o["z"], hops=list(o["hops"]))
            return {"k": "list", "v": list(r)}
        raise ValueError("unknown abstract op " + op)


def run_script(script, backend, fmt="graphml", vseed=None):
    """Execute a list of abstract ops on a fresh store; return the trace (init state + one line per op)."""
    _USE_CLASSES[0] = vseed is not None
    if vseed is not None:
        set_value_seed(vseed)
    r = StoreRunner(backend, fmt)
    steps = []
    prev = None
    for o in script:
        out, res = r.apply(o)
        st = r.project()
        steps.append({"op": o, "out": out, "res": res, "same": st == prev, "state": {} if st == prev else st})
        prev = st
    return {"backend": backend, "fmt": fmt, "init": {"nodes": [], "edges": [], "dup": [], "alloc_ok": True, "lock_free": True},
            "steps": steps}
