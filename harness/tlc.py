"""Thin runner around TLC: private metadir, timeout, output parsing.

Everything that decides a property is a TLA+ operator evaluated by TLC; this module only starts the JVM and
reads back (a) the statistics line, (b) lines printed with PrintT (JSON strings or verdict strings).
"""
import json
import os
import re
import shutil
import subprocess
import tempfile
import time

SPEC_DIR = os.path.join(os.path.dirname(os.path.dirname(os.path.abspath(__file__))), "spec")
JAR = "/opt/veriftools/tla/tla2tools.jar:/opt/veriftools/tla/CommunityModules-deps.jar"


class TLCError(Exception):
    """Machinery failure (exit code 2 of a check)."""


class TLCResult:
    def __init__(self):
        self.rc = None
        self.out = ""
        self.generated = 0
        self.distinct = 0
        self.depth = 0
        self.wall = 0.0
        self.printed = []      # decoded PrintT payloads (python objects for JSON strings, str otherwise)
        self.violation = None  # text of an invariant/property violation reported by TLC
        self.coverage = {}
        self.cmd = ""

    def summary(self):
        return {"states_generated": self.generated, "distinct_states": self.distinct, "depth": self.depth,
                "wall_s": round(self.wall, 2), "cmd": self.cmd}


_STR_LINE = re.compile(r'^"(.*)"$')


def _decode_printed(line):
    """PrintT of a TLA+ string prints it with quotes and TLA+ escapes (\\" and \\\\)."""
    m = _STR_LINE.match(line)
    if not m:
        return None
    body = m.group(1)
    # TLA+ string escape -> raw text
    out = []
    i = 0
    while i < len(body):
        c = body[i]
        if c == "\\" and i + 1 < len(body):
            n = body[i + 1]
            if n == "n":
                out.append("\n")
            elif n == "t":
                out.append("\t")
            elif n == "r":
                out.append("\r")
            elif n == "f":
                out.append("\f")
            else:
                out.append(n)
            i += 2
        else:
            out.append(c)
            i += 1
    return "".join(out)


def run_tlc(module, cfg, *, workers=1, env=None, timeout=3600, simulate=None, depth=None, seed=None,
            coverage=False, extra=None, cwd=None, heap_gb=8, deadlock=True, want_printed=True, dfs=False):
    """Run TLC on spec/<module>.tla with spec/<cfg>. Returns TLCResult; raises TLCError on machinery failure."""
    cwd = cwd or SPEC_DIR
    meta = tempfile.mkdtemp(prefix="tlcmeta-")
    jopts = [f"-Xmx{heap_gb}g", "-XX:+UseParallelGC", f"-XX:ParallelGCThreads={max(2, min(8, workers))}",
             f"-Djava.io.tmpdir={meta}"]                       # TLC leaves an empty tlc-NNN directory per run there
    if dfs:
        jopts.append("-Dtlc2.tool.queue.IStateQueue=StateDeque")
    cmd = ["java"] + jopts + ["-cp", JAR, "tlc2.TLC", "-workers", str(workers), "-metadir", meta,
                              "-noGenerateSpecTE", "-config", cfg]
    if not deadlock:
        cmd.append("-deadlock")
    if simulate:
        cmd += ["-simulate", simulate]
    if depth:
        cmd += ["-depth", str(depth)]
    if seed is not None:
        cmd += ["-seed", str(seed)]
    if coverage:
        cmd += ["-coverage", "1"]
    if extra:
        cmd += list(extra)
    cmd.append(module)
    e = dict(os.environ)
    if env:
        e.update({k: str(v) for k, v in env.items()})
    res = TLCResult()
    res.cmd = " ".join(cmd)
    t0 = time.time()
    try:
        p = subprocess.run(cmd, cwd=cwd, env=e, stdout=subprocess.PIPE, stderr=subprocess.STDOUT, timeout=timeout,
                           text=True, errors="replace")
    except subprocess.TimeoutExpired as ex:
        shutil.rmtree(meta, ignore_errors=True)
        raise TLCError(f"TLC timed out after {timeout}s: {' '.join(cmd)}") from ex
    finally:
        shutil.rmtree(meta, ignore_errors=True)
    res.wall = time.time() - t0
    res.rc = p.returncode
    res.out = p.stdout
    for line in p.stdout.splitlines():
        if want_printed and line.startswith('"'):
            d = _decode_printed(line)
            if d is not None:
                if d[:1] in "{[":
                    try:
                        res.printed.append(json.loads(d))
                        continue
                    except ValueError:
                        pass
                res.printed.append(d)
            continue
        m = re.match(r"^(\d+) states generated, (\d+) distinct states found", line)
        if m:
            res.generated = int(m.group(1))
            res.distinct = int(m.group(2))
        m = re.match(r"^The depth of the complete state graph search is (\d+)", line)
        if m:
            res.depth = int(m.group(1))
        if line.startswith("Error: Invariant") or line.startswith("Error: Action property") or \
                line.startswith("Error: Temporal properties") or line.startswith("Error: Deadlock"):
            res.violation = line
    if "Error:" in p.stdout and res.violation is None:
        # parse errors, evaluation errors, assumption failures: machinery
        m = re.search(r"Error: .*(?:\n.*){0,12}", p.stdout)
        raise TLCError("TLC error:\n" + (m.group(0) if m else p.stdout[-2000:]) + "\ncmd: " + res.cmd)
    if res.violation is None and "Model checking completed. No error has been found." not in p.stdout \
            and not simulate and "Finished computing" not in p.stdout and "Finished in" not in p.stdout:
        raise TLCError("TLC did not complete:\n" + p.stdout[-3000:])
    return res


def violation_trace(res):
    """Return the textual counterexample TLC printed (from the first 'Error:' line on)."""
    i = res.out.find("Error:")
    return res.out[i:] if i >= 0 else ""


def sany(module, cwd=None):
    cwd = cwd or SPEC_DIR
    p = subprocess.run(["java", "-cp", JAR, "tla2sany.SANY", module], cwd=cwd, stdout=subprocess.PIPE,
                       stderr=subprocess.STDOUT, text=True)
    ok = p.returncode == 0 and "Semantic errors" not in p.stdout and "***Parse Error***" not in p.stdout \
        and "Fatal errors" not in p.stdout and "Lexical error" not in p.stdout
    return ok, p.stdout


def write_cfg(text, consts=None, dirpath=None):
    """Materialise a cfg (template text with {NAME} placeholders) in a private temp file; caller removes it."""
    if consts:
        for k, v in consts.items():
            text = text.replace("{" + k + "}", str(v))
    fd, name = tempfile.mkstemp(prefix="vh-", suffix=".cfg", dir=dirpath)
    with os.fdopen(fd, "w") as f:
        f.write(text)
    return name


def tla_set(items):
    return "{" + ", ".join('"%s"' % x for x in items) + "}"


def run_apalache(module, inv, *, init="Init", nxt="Next", length=1, timeout=900, cwd=None):
    """Symbolic (SMT) check of a state invariant with Apalache: spec/<module>.tla, all executions up to `length` steps
    from `init`.  Returns {"outcome": "NoError" | "Error", "wall_s", "cmd"}; anything else raises TLCError."""
    cwd = cwd or SPEC_DIR
    out = tempfile.mkdtemp(prefix="apa-")
    cmd = ["apalache-mc", "check", f"--init={init}", f"--next={nxt}", f"--inv={inv}", f"--length={length}",
           f"--out-dir={out}", f"--run-dir={out}/run", module + ".tla"]
    t0 = time.time()
    try:
        p = subprocess.run(cmd, cwd=cwd, stdout=subprocess.PIPE, stderr=subprocess.STDOUT, timeout=timeout, text=True,
                           errors="replace", env=dict(os.environ, JVM_ARGS="-Xmx4g -Djava.io.tmpdir=" + out))
    except subprocess.TimeoutExpired as ex:
        raise TLCError(f"Apalache timed out after {timeout}s: {' '.join(cmd)}") from ex
    finally:
        shutil.rmtree(out, ignore_errors=True)
    if "The outcome is: NoError" in p.stdout and p.returncode == 0:
        outcome = "NoError"
    elif "The outcome is: Error" in p.stdout and p.returncode == 12:
        outcome = "Error"
    else:
        raise TLCError("Apalache did not decide (rc=%d): %s" % (p.returncode, " ".join(p.stdout.split())[-600:]))
    return {"engine": "apalache-mc 0.58", "module": module, "invariant": inv, "length": length, "outcome": outcome,
            "wall_s": round(time.time() - t0, 1), "cmd": " ".join(cmd)}
