"""Adapter between abstract FimTopology operations (spec/FimTopology.tla) and the real topology-building API.

Concretise -> call -> project.  Elements are addressed by NAME PATHS (never by library-generated ids); the projection
is computed from the raw model graph (storage.extract_graph) after every call and is stateless.
"""
import json

import fim.user as fu
from fim.graph import networkx_property_graph as nxpg
from fim.graph.abc_property_graph import ABCPropertyGraph
from fim.slivers.capacities_labels import Capacities, Labels, ReservationInfo
from fim.slivers.network_service import ServiceType
from fim.slivers.network_node import NodeType
from fim.slivers.network_link import LinkType
from fim.slivers.interface_info import InterfaceType
from fim.slivers.attached_components import ComponentType
from fim.user.interface import Interface
from fim.user.network_service import NetworkService
from fim.user.node import Node
from fim.user.component import Component
from fim.user.link import Link

from .store_adapter import tok

MODELS = {"nic2": ("SmartNIC", "ConnectX-6"), "nic25": ("SmartNIC", "ConnectX-5"), "nic1": ("SharedNIC", "ConnectX-6"),
          "gpu": ("GPU", "Tesla T4"), "nvme": ("NVME", "P4510"), "fpga": ("FPGA", "Xilinx-U280"),
          "nosuch": ("GPU", "no-such-model")}
TRACKED_SP = ("Site", "StitchNode", "Layer", "Model")
REC_PROPS = ("Capacities", "Labels", "ReservationInfo", "CapacityHints", "Flags", "Location", "StructuralInfo",
             "PeerLabels", "CapacityAllocations", "LabelAllocations")
IDENT = ("GraphID", "NodeID", "Class", "Name", "Type")


def conc_name(n):
    """abstract names starting with '!' stand for names outside every NAME_REGEX"""
    if n.startswith("!"):
        return "!"      # not a word character, and too short for most classes
    return n


def rec_tokens(text):
    try:
        d = json.loads(text)
    except (ValueError, TypeError):
        return None
    if not isinstance(d, dict):
        return None
    return {str(k): tok(v) for k, v in d.items()}


class NoSuchElement(Exception):
    pass


class TopoRunner:
    def __init__(self, flavour="experiment"):
        nxpg.NetworkXGraphStorage.storage_instance = None
        self.flavour = flavour
        self.t = fu.ExperimentTopology() if flavour == "experiment" else fu.SubstrateTopology()
        self.handles = {}     # NodeID -> persistent handle (services, dedicated ports) for the cache observations
        self.idseq = 0

    # ------------------------------------------------------------------------------------------- projection
    def graph(self):
        gm = self.t.graph_model
        g = gm.storage.extract_graph(gm.graph_id)
        return g

    def project(self):
        g = self.graph()
        if g is None:
            self._paths, self._ids = {}, {}
            return {"el": {}, "conn": [], "anomalies": [], "dup": []}
        N = {n: d for n, d in g.nodes(data=True)}
        adj = {n: [] for n in N}
        for u, v, d in g.edges(data=True):
            adj[u].append((v, d.get("Class")))
            if u != v:
                adj[v].append((u, d.get("Class")))
        anomalies = []
        par = {}
        for n, d in N.items():
            c = d.get("Class")
            if c in ("NetworkNode", "Link", "CompositeNode"):
                par[n] = None
            elif c == "Component":
                ow = [m for m, r in adj[n] if r == "has" and N[m].get("Class") == "NetworkNode"]
                par[n] = ow[0] if len(ow) == 1 else None
                if len(ow) != 1:
                    anomalies.append("component %s has %d owner nodes" % (d.get("Name"), len(ow)))
            elif c == "NetworkService":
                ow = [m for m, r in adj[n] if r == "has" and N[m].get("Class") in ("NetworkNode", "Component", "CompositeNode")]
                par[n] = ow[0] if len(ow) == 1 else None
                if len(ow) > 1:
                    anomalies.append("service %s has %d owners" % (d.get("Name"), len(ow)))
            elif c == "ConnectionPoint":
                if d.get("Type") == "SubInterface":
                    ow = [m for m, r in adj[n] if r == "connects" and N[m].get("Class") == "ConnectionPoint"]
                else:
                    ow = [m for m, r in adj[n] if r == "connects" and N[m].get("Class") == "NetworkService"]
                par[n] = ow[0] if len(ow) == 1 else None
                if len(ow) != 1:
                    anomalies.append("interface %s has %d owners" % (d.get("Name"), len(ow)))
            else:
                par[n] = None
                anomalies.append("unknown class %s" % c)
        memo = {}

        def path(n, depth=0):
            if n in memo:
                return memo[n]
            d = N[n]
            c, name = d.get("Class"), str(d.get("Name"))
            if depth > 12:
                p = "cycle:" + name
            elif c == "Link":
                p = "link:" + name
            elif par[n] is None:
                if c == "NetworkService":
                    p = "svc:" + name
                elif c in ("NetworkNode", "CompositeNode"):
                    p = name
                else:
                    p = "orphan:" + c + ":" + name
            else:
                p = path(par[n], depth + 1) + "/" + name
            memo[n] = p
            return p
        el, dup, paths, ids = {}, [], {}, {}
        for n, d in N.items():
            p = path(n)
            if p in el:
                dup.append(p)
                continue
            sp, rp = {}, {}
            for k, v in d.items():
                if k in IDENT:
                    continue
                if k in REC_PROPS and isinstance(v, str):
                    r = rec_tokens(v)
                    if r is not None:
                        rp[k] = r
                        continue
                sp[k] = v if isinstance(v, str) else tok(v)
            if str(d.get("NodeID")).startswith("fixed-"):
                sp["~cid"] = str(d.get("NodeID"))[6:]        # caller-supplied id (names the explicit id, see spec CidUsed)
            el[p] = {"cls": str(d.get("Class")), "type": str(d.get("Type")), "name": str(d.get("Name")),
                     "par": path(par[n]) if par[n] is not None else "", "sp": sp, "rp": rp}
            paths[d.get("NodeID")] = p
            ids[p] = d.get("NodeID")
        conn = []
        for u, v, d in g.edges(data=True):
            cu, cv = N[u].get("Class"), N[v].get("Class")
            r = d.get("Class")
            if par.get(v) == u or par.get(u) == v:
                expect = "has" if (N[v] if par.get(v) == u else N[u]).get("Class") in ("Component", "NetworkService") else "connects"
                if r != expect:
                    anomalies.append("owner edge %s-%s has relation %s" % (path(u), path(v), r))
                continue
            if r == "connects" and {cu, cv} == {"Link", "ConnectionPoint"}:
                l, c = (u, v) if cu == "Link" else (v, u)
                conn.append([path(l), path(c)])
                continue
            anomalies.append("unexpected edge %s -%s- %s" % (path(u), r, path(v)))
        conn.sort()
        self._paths, self._ids = paths, ids
        allids = [d.get("NodeID") for d in N.values()]
        if len(set(allids)) != len(allids):
            anomalies.append("node ids are not distinct")
        return {"el": el, "conn": conn, "anomalies": sorted(anomalies), "dup": sorted(dup)}

    # ------------------------------------------------------------------------------------------- handles
    def nid(self, p):
        i = self._ids.get(p)
        return i if i is not None else "no-such-id-" + p

    def need(self, *paths):
        """the call cannot even be formed without a live object for these elements (harness precondition)"""
        for p in paths:
            if p not in self._ids:
                raise NoSuchElement(p)

    def elem(self, p, persistent=False):
        nid = self.nid(p)
        if persistent and nid in self.handles:
            return self.handles[nid]
        gm = self.t.graph_model
        try:
            labels, props = gm.get_node_properties(node_id=nid)
            cls, name = labels[0], props.get("Name")
        except Exception:  # stale path: hand out a handle that points nowhere
            cls, name = "ConnectionPoint", p.split("/")[-1]
            h = Interface.__new__(Interface)
            h._name, h.topo, h.node_id, h._interfaces = name, self.t, nid, []
            return h
        if cls == "NetworkNode":
            h = Node(name=name, node_id=nid, topo=self.t)
        elif cls == "Component":
            h = Component(name=name, node_id=nid, topo=self.t)
        elif cls == "NetworkService":
            h = NetworkService(name=name, node_id=nid, topo=self.t)
        elif cls == "Link":
            h = Link(name=name, node_id=nid, topo=self.t)
        else:
            h = Interface(name=name, node_id=nid, topo=self.t)
        if persistent:
            self.handles[nid] = h
        return h

    # ------------------------------------------------------------------------------------------- execution
    HANDLE_ARGS = {"Connect": ("s",), "Disconnect": ("s",), "AddInterface": ("s",), "Peer": ("a", "b"), "Unpeer": ("a", "b"),
                   "AddSubInterface": ("i",), "RemoveSubInterface": ("i",)}
    OBSERVERS = ("Views", "HandleIfs", "ConstraintTables", "Collect", "Tally", "Navigate")

    def apply(self, o):
        """handles stay alive only across consecutive calls made through them: any other mutating call drops them
        (the property speaks about the handles through which an operation was performed)"""
        args = self.HANDLE_ARGS.get(o["op"])
        if args is None and o["op"] not in self.OBSERVERS:
            self.handles = {}
        elif args is not None:
            # a handle stays alive only while consecutive calls go through IT: a handle that sat idle while another
            # handle changed the model is not what the property speaks about (the library keeps no handle coherent
            # with changes made through other handles)
            keep = {self.nid(o[a]) for a in args}
            self.handles = {k: v for k, v in self.handles.items() if k in keep}
        import contextlib
        import io
        try:
            with contextlib.redirect_stdout(io.StringIO()):     # the library prints diagnostics
                res = self._dispatch(o)
        except Exception as e:  # noqa
            return type(e).__name__, {"k": "none"}
        if args is not None:
            self.project()
            hs = []
            for a in args:
                p = o[a]
                h = self.handles.get(self.nid(p))
                if h is None or p not in self._ids:
                    hs.append({"cached": [], "fresh": []})
                    continue
                fresh = self.elem(p, persistent=False)
                hs.append({"cached": sorted(i.name for i in h.interface_list), "fresh": sorted(i.name for i in fresh.interface_list)})
            return "ok", {"k": "handles", "v": hs}
        return "ok", res

    @staticmethod
    def _rp_kwargs(rp):
        kw = {}
        for k, v in (rp or {}).items():
            vals = {f: (int(x[2:]) if x.startswith("i:") else x[2:]) for f, x in v.items()}
            if k == "Capacities":
                kw["capacities"] = Capacities(**vals)
            elif k == "Labels":
                kw["labels"] = Labels(**vals)
            elif k == "ReservationInfo":
                kw["reservation_info"] = ReservationInfo(**vals)
        return kw

    def _sid(self):
        self.idseq += 1
        return "sid-%d" % self.idseq

    @staticmethod
    def _bad_kwargs(o, type_key="capacities"):
        """an invalid property carried by an otherwise fine creating call"""
        b = o.get("bad", "none")
        if b == "unknown":
            return {"bogus_property": 1}
        if b == "type":
            return {type_key: "10G"}                               # a string where an object is required
        return {}

    def _dispatch(self, o):
        op, t = o["op"], self.t
        none = {"k": "none"}
        sub = self.flavour == "substrate"
        if op == "AddNode":
            nid = ("fixed-" + o["cid"]) if o.get("cid") else (self._sid() if sub else None)
            t.add_node(name=conc_name(o["name"]), site=o["site"], ntype=NodeType[o["ntype"]],
                       node_id=nid, **self._rp_kwargs(o.get("rp")), **self._bad_kwargs(o))
            return none
        if op == "RemoveNode":
            t.remove_node(name=o["name"])
            return none
        if op == "AddComponent":
            self.need(o["n"])
            ct, model = MODELS[o["model"]]
            n = self.elem(o["n"])
            kw = {}
            if sub:
                nports = {"nic2": 2, "nic25": 2, "nic1": 1, "fpga": 2}.get(o["model"], 0)
                if_ids = [self._sid() for _ in range(nports)]
                if o.get("ifcid") and nports:
                    if_ids[-1] = "fixed-" + o["ifcid"]      # caller-supplied id of the last interface (may be taken)
                kw = dict(node_id=self._sid(), network_service_node_id=self._sid(),
                          interface_node_ids=if_ids,
                          interface_labels=[Labels(mac="00:00:00:00:00:%02x" % (i + 1)) for i in range(nports)])
            n.add_component(name=conc_name(o["name"]), ctype=ComponentType[ct], model=model, **kw, **self._bad_kwargs(o))
            return none
        if op == "AddStorage":
            self.need(o["n"])
            self.elem(o["n"]).add_storage(name=conc_name(o["name"]))
            return none
        if op == "RemoveComponent":
            self.need(o["n"])
            self.elem(o["n"]).remove_component(name=o["name"])
            return none
        if op == "AddService":
            ifs = [self.elem(p) for p in o["ifs"]]
            kw = self._rp_kwargs(o.get("rp"))
            if o.get("site"):
                kw["site"] = o["site"]
            kw.update(self._bad_kwargs(o, "labels"))
            s = t.add_network_service(name=conc_name(o["name"]), nstype=ServiceType[o["nstype"]], interfaces=ifs,
                                      node_id=self._sid() if sub else None, **kw)
            self.handles = {s.node_id: s}      # the handle the call returned
            return none
        if op == "RemoveService":
            t.remove_network_service(name=o["name"])
            return none
        if op == "AddPortMirror":
            s = t.add_port_mirror_service(name=conc_name(o["name"]), from_interface_name=o["from"], to_interface=self.elem(o["to"]))
            self.handles = {s.node_id: s}
            return none
        if op in ("Collect", "CollectASM"):
            from fim.authz.attribute_collector import ResourceAuthZAttributes as RA
            az = RA()
            az.collect_resource_attributes(source=t if op == "Collect" else t.graph_model)
            at = dict(az.attributes)

            def bag(key, conv=tok):
                out = {}
                for v in at.get(key, []):
                    out[conv(v)] = out.get(conv(v), 0) + 1
                return out
            req = json.loads(az.transform_to_pdp_request())
            pdp = {}
            for cat in req["Request"]["Category"]:
                for a_ in cat["Attribute"]:
                    pdp[a_["AttributeId"]] = a_["Value"]
            return {"k": "attrs", "v": {
                "rtype": at.get(RA.RESOURCE_TYPE, ["?"])[0] if len(at.get(RA.RESOURCE_TYPE, [])) == 1 else "?",
                "sites": sorted(at.get(RA.RESOURCE_SITE, [])), "cpu": bag(RA.RESOURCE_CPU), "ram": bag(RA.RESOURCE_RAM),
                "disk": bag(RA.RESOURCE_DISK), "comps": bag(RA.RESOURCE_COMPONENT, str), "bw": bag(RA.RESOURCE_BW),
                "facilities": sorted(at.get(RA.RESOURCE_FACILITY_PORT, [])), "v4ext": sorted(at.get(RA.RESOURCE_FABNETV4_EXT, [])),
                "v6ext": sorted(at.get(RA.RESOURCE_FABNETV6_EXT, [])), "mirror": sorted(at.get(RA.RESOURCE_MIRROR_SITE, [])),
                "pdp_same": pdp == {k: v for k, v in at.items()},
                "other_keys": sorted(set(at) - {RA.RESOURCE_TYPE, RA.RESOURCE_SITE, RA.RESOURCE_CPU, RA.RESOURCE_RAM, RA.RESOURCE_DISK,
                                                RA.RESOURCE_COMPONENT, RA.RESOURCE_BW, RA.RESOURCE_FACILITY_PORT, RA.RESOURCE_FABNETV4_EXT,
                                                RA.RESOURCE_FABNETV6_EXT, RA.RESOURCE_MIRROR_SITE})}}
        if op in ("Tally", "TallyASM"):
            from fim.logging.log_collector import LogCollector
            lc = LogCollector()
            lc.collect_resource_attributes(source=t if op == "Tally" else t.graph_model)
            at = lc.attributes
            svc = {}
            for ty, bw in at["services"]:
                k = "%s:%s" % (ty, tok(bw))
                svc[k] = svc.get(k, 0) + 1
            str(lc)
            return {"k": "tally", "v": {"vm_count": at["vm_count"], "core_count": at["core_count"], "p4_count": at["p4_count"],
                                        "components": dict(at["components"]), "services": svc, "sites": sorted(at["sites"]),
                                        "facilities": sorted(at["facilities"]), "n_caps": len(at["nodes"])}}
        if op == "Connect":
            self.need(o["s"])
            self.elem(o["s"], persistent=True).connect_interface(self.elem(o["i"]))
            return none
        if op == "Disconnect":
            self.need(o["s"])
            self.elem(o["s"], persistent=True).disconnect_interface(self.elem(o["i"]))
            return none
        if op == "ConnectViaStale":
            # the handle of a service that is no longer in the model
            h = t.add_network_service(name="zz-stale", nstype=ServiceType.L2Bridge, interfaces=[])
            t.remove_network_service(name="zz-stale")
            h.connect_interface(self.elem(o["i"]))
            return none
        if op == "AddFacility":
            if o.get("ifs"):
                # the multi-interface form: (name, labels, capacities) per interface
                kw = self._rp_kwargs(o.get("rp"))
                t.add_facility(name=conc_name(o["name"]), site=o["site"], node_id=self._sid() if sub else None,
                               interfaces=[(conc_name(i), kw.get("labels"), kw.get("capacities")) for i in o["ifs"]])
                return none
            t.add_facility(name=conc_name(o["name"]), site=o["site"], node_id=self._sid() if sub else None,
                           **self._rp_kwargs(o.get("rp")), **self._bad_kwargs(o, "labels"))
            return none
        if op == "RemoveFacility":
            t.remove_facility(name=o["name"])
            return none
        if op == "AddSwitch":
            t.add_switch(name=conc_name(o["name"]), site=o["site"], nports=o["nports"], node_id=self._sid() if sub else None,
                         **({"portlabels": "p-lab"} if o.get("bad") == "type" else {}))
            return none
        if op == "RemoveSwitch":
            t.remove_switch(name=o["name"])
            return none
        if op == "Peer":
            self.need(o["a"], o["b"])
            self.elem(o["a"], persistent=True).peer(self.elem(o["b"], persistent=True))
            return none
        if op == "Unpeer":
            self.need(o["a"], o["b"])
            self.elem(o["a"], persistent=True).unpeer(self.elem(o["b"], persistent=True))
            return none
        if op == "AddSubInterface":
            self.need(o["i"])
            kw = {"labels": Labels(vlan=o["vlan"])} if o["vlan"] else {}
            self.elem(o["i"], persistent=True).add_child_interface(name=conc_name(o["name"]),
                                                                  node_id=self._sid() if sub else None, **kw)
            return none
        if op == "RemoveSubInterface":
            self.need(o["i"])
            self.elem(o["i"], persistent=True).remove_child_interface(name=o["name"])
            return none
        if op == "AddLink":
            t.add_link(name=conc_name(o["name"]), ltype=LinkType[o["ltype"]], interfaces=[self.elem(p) for p in o["ifs"]],
                       node_id=self._sid() if sub else None)
            return none
        if op == "RemoveLink":
            t.remove_link(name=o["name"])
            return none
        if op == "AddNodeService":
            self.need(o["n"])
            nid = ("fixed-" + o["cid"]) if o.get("cid") else (self._sid() if sub else None)
            self.elem(o["n"]).add_network_service(name=conc_name(o["name"]), nstype=ServiceType[o["nstype"]], node_id=nid)
            return none
        if op == "RemoveNodeService":
            self.need(o["n"])
            self.elem(o["n"]).remove_network_service(name=o["name"])
            return none
        if op == "AddInterface":
            self.need(o["s"])
            self.elem(o["s"], persistent=True).add_interface(name=conc_name(o["name"]), itype=InterfaceType[o["itype"]],
                                                             node_id=self._sid() if sub else None)
            return none
        if op == "Rename":
            self.need(o["p"])
            self.elem(o["p"], persistent=True).rename(conc_name(o["new"]))
            return none
        if op == "SetProp":
            self.need(o["p"])
            h = self.elem(o["p"], persistent=True)
            if o["kind"] == "sp":
                pn = {"Site": "site", "MirrorPort": "mirror_port", "MirrorVlan": "mirror_vlan", "MirrorDirection": "mirror_direction",
                      "ControllerURL": "controller_url"}[o["pname"]]
                val = o["val"]
                if pn == "mirror_direction":
                    from fim.slivers.network_service import MirrorDirection
                    val = MirrorDirection[val]
                h.set_property(pn, val)
            else:
                kw = self._rp_kwargs({o["pname"]: o["val"]})
                (k, v), = kw.items()
                h.set_property(k, v)
            return none
        if op == "SetProps":
            self.need(o["p"])
            h = self.elem(o["p"], persistent=True)
            kw = {}
            for it in o["items"]:
                kw.update(self._rp_kwargs({it["pname"]: it["val"]}))
            if o["bad"] == "unknown":
                kw["mtu"] = 9000                              # no such settable property (kwargs keep their order: last)
            elif o["bad"] == "type":
                kw["capacity_allocations"] = "10G"            # a string where a Capacities object is required
            h.set_properties(**kw)
            return none
        if op == "UnsetProp":
            self.need(o["p"])
            pn = {"Capacities": "capacities", "Labels": "labels", "ReservationInfo": "reservation_info", "Site": "site"}[o["pname"]]
            self.elem(o["p"], persistent=True).unset_property(pn)
            return none
        if op == "Validate":
            t.validate()
            return none
        if op == "ConstraintTables":
            from fim.slivers.network_service import NetworkServiceSliver
            from fim.slivers.network_node import NodeSliver
            from fim.slivers.network_link import NetworkLinkSliver
            svc = {}
            for st, c in NetworkServiceSliver.ServiceConstraints.items():
                svc[st.name] = {"layer": str(c.layer), "min_if": c.min_interfaces, "max_if": c.num_interfaces, "sites": c.num_sites,
                                "instances": c.num_instances, "req": sorted(c.required_properties),
                                "forb": sorted(c.forbidden_properties), "iftypes": sorted(str(x) for x in c.required_interface_types)}
            node = {nt.name: {"req": sorted(c.required_properties), "forb": sorted(c.forbidden_properties)}
                    for nt, c in NodeSliver.NodeConstraints.items()}
            link = {lt.name: str(c.layer) for lt, c in NetworkLinkSliver.LinkConstraints.items()}
            return {"k": "tables", "svc": svc, "node": node, "link": link}
        if op == "Views":
            self.project()
            P = self._paths
            immut = True
            for view in (t.nodes, t.links, t.network_services, t.facilities):
                for attempt in (lambda v: v.__setitem__("zz", 1), lambda v: v.pop("zz", None), lambda v: v.clear(),
                                lambda v: v.update({"zz": 1}), lambda v: v.__delitem__("zz")):
                    try:
                        attempt(view)
                        immut = False
                    except Exception:  # noqa: refusal is what we look for
                        pass
            comps = []
            for n in t.nodes.values():
                comps += [P.get(c.node_id, "?" + c.name) for c in n.components.values()]
            return {"k": "views", "nodes": sorted(t.nodes.keys()), "facilities": sorted(t.facilities.keys()),
                    "links": sorted(t.links.keys()), "services": sorted(t.network_services.keys()),
                    "ifaces": sorted(P.get(i.node_id, "?" + i.name) for i in t.interface_list),
                    "comps": sorted(comps), "immutable": immut}
        if op == "HandleIfs":
            self.need(o["p"])
            fresh = self.elem(o["p"], persistent=False)
            names = sorted(i.name for i in fresh.interface_list)
            return {"k": "ifs", "cached": names, "fresh": names}
        if op == "Navigate":
            self.need(o["p"])
            e = self.elem(o["p"], persistent=False)
            gm = t.graph_model
            P = self._paths

            def pth(x):
                return "" if x is None else P.get(x.node_id, "?" + str(getattr(x, "name", x)))
            cls = gm.get_node_properties(node_id=e.node_id)[0][0]
            comps, svcs, ifs, ok = [], [], [], True

            def names(ids):
                return sorted(gm.get_node_properties(node_id=i)[1].get("Name") for i in ids)
            if cls == "NetworkNode":
                cids = gm.get_first_neighbor(node_id=e.node_id, rel="has", node_label="Component")
                comps = names(cids)
                if hasattr(gm, "get_all_network_node_components"):
                    ok = ok and sorted(gm.get_all_network_node_components(parent_node_id=e.node_id)) == sorted(cids)
                    for c in cids:
                        nm = gm.get_node_properties(node_id=c)[1].get("Name")
                        ok = ok and (comps.count(nm) > 1 or gm.find_component_by_name(parent_node_id=e.node_id, component_name=nm) == c)
            if cls in ("NetworkNode", "Component"):
                sids = gm.get_first_neighbor(node_id=e.node_id, rel="has", node_label="NetworkService")
                svcs = names(sids)
                if hasattr(gm, "find_ns_by_name"):
                    for s_ in sids:
                        nm = gm.get_node_properties(node_id=s_)[1].get("Name")
                        ok = ok and (svcs.count(nm) > 1 or gm.find_ns_by_name(parent_node_id=e.node_id, nsname=nm) == s_)
            if cls in ("NetworkService", "Link"):
                iids = gm.get_all_ns_or_link_connection_points(link_id=e.node_id)
                ifs = names(iids)
                if hasattr(gm, "find_connection_point_by_name"):
                    for i_ in iids:
                        nm = gm.get_node_properties(node_id=i_)[1].get("Name")
                        ok = ok and (ifs.count(nm) > 1 or gm.find_connection_point_by_name(parent_node_id=e.node_id, iname=nm) == i_)
            if cls == "ConnectionPoint":
                iids = [i for i in gm.get_all_child_connection_points(interface_id=e.node_id)
                        if P.get(i, "").startswith(o["p"] + "/")] if gm.get_node_properties(node_id=e.node_id)[1].get("Type") != "SubInterface" else []
                ifs = names(iids)
            if cls == "NetworkNode" and hasattr(gm, "find_node_by_name") and e.name in t.nodes:
                ok = ok and gm.find_node_by_name(node_name=e.name, label="NetworkNode") == e.node_id
            return {"k": "nav", "parent": pth(t.get_parent_element(e)), "owner": pth(t.get_owner_node(e)),
                    "comps": comps, "svcs": svcs, "ifs": ifs, "lookups_ok": bool(ok)}
        raise ValueError("unknown abstract op " + op)


def run_script(script, flavour="experiment"):
    r = TopoRunner(flavour)
    init = r.project()
    steps, prev = [], init
    for o in script:
        r.project()                      # refresh path<->id maps before resolving the operation's arguments
        out, res = r.apply(o)
        st = r.project()
        steps.append({"op": o, "out": out, "res": res, "same": st == prev, "state": {} if st == prev else st})
        prev = st
    return {"flavour": flavour, "init": init, "steps": steps}
