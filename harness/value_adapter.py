"""Adapters for the value-level layers (capacities C15, instance sizing / catalogue C18, codecs C03, validation C16,
delegations C12).  Concretise, call, project - never judge."""
import json

from fim.slivers.capacities_labels import Capacities, FreeCapacity

CAP_FIELDS = ("cpu", "core", "ram", "disk", "bw", "burst_size", "unit", "mtu")


# ------------------------------------------------------------------------------------------------ capacities (C15)
def _mk(v, scale):
    v = v if isinstance(v, dict) else {}
    c = Capacities()
    kw = {k: int(x) * scale for k, x in v.items()}
    neg = {k: x for k, x in kw.items() if x < 0}
    pos = {k: x for k, x in kw.items() if x >= 0}
    c = Capacities(**pos)
    for k, x in neg.items():
        c.__dict__[k] = x
    return c


def _vec(c, scale):
    out = {}
    for k, x in c.__dict__.items():
        if not isinstance(x, int) or x % scale != 0:
            out[k] = -999999
        else:
            out[k] = x // scale
    return out


def run_capacity_script(script, scale=1):
    total, allocated = Capacities(), Capacities()
    steps = []
    for o in script:
        op = o["op"]
        out, res = "ok", None
        try:
            if op in ("SetTotal", "Allocate", "Release"):
                c = _mk(o["a"], scale)
                if op == "SetTotal":
                    total = c
                elif op == "Allocate":
                    allocated = allocated + c
                else:
                    allocated = allocated - c
                free = FreeCapacity(total=total, allocated=allocated)
                res = {"k": "ledger", "free": {f: getattr(free, f) // scale for f in CAP_FIELDS}}
            elif op == "CanFit":
                c = _mk(o["a"], scale)
                free = FreeCapacity(total=total, allocated=allocated)
                res = {"k": "bool", "v": bool(c < free.free), "a": _vec(c, scale), "b": _vec(c, scale)}
            else:
                a, b = _mk(o["a"], scale), _mk(o["b"], scale)
                if op == "Add":
                    r = {"k": "vec", "v": _vec(a + b, scale)}
                elif op == "Sub":
                    r = {"k": "vec", "v": _vec(a - b, scale)}
                elif op == "AddSub":
                    r = {"k": "vec", "v": _vec((a + b) - b, scale)}
                elif op == "Gt":
                    r = {"k": "bool", "v": bool(a > b)}
                elif op == "Lt":
                    r = {"k": "bool", "v": bool(a < b)}
                elif op == "Eq":
                    r = {"k": "bool", "v": bool(a == b)}
                elif op == "NegOfDiff":
                    r = {"k": "names", "v": sorted((b - a).negative_fields())}
                elif op == "Positive":
                    r = {"k": "bool", "v": bool((a - b).positive_fields(list(o["fields"])))}
                elif op == "EncodeDiff":
                    d = a - b
                    text = d.to_json()
                    s = str(d)                      # printable
                    assert isinstance(s, str)
                    enc = json.loads(text) if text else {}
                    r = {"k": "enc", "v": {k: (x // scale if x % scale == 0 else -999999) for k, x in enc.items()}}
                elif op == "FreeOf":
                    fc = FreeCapacity(total=a, allocated=b)
                    str(fc)
                    r = {"k": "vec", "v": {f: getattr(fc, f) // scale for f in CAP_FIELDS}}
                else:
                    raise ValueError(op)
                r["a"], r["b"] = _vec(a, scale), _vec(b, scale)
                res = r
        except Exception as e:  # noqa
            out, res = type(e).__name__, {"k": "none"}
        steps.append({"op": o, "out": out, "res": res,
                      "state": {"total": _vec(total, scale), "allocated": _vec(allocated, scale)}})
    return {"scale": str(scale), "steps": steps}
