"""Adapters for the value-level layers (capacities C15, instance sizing / catalogue C18, codecs C03, validation C16,
delegations C12).  Concretise, call, project - never judge."""
import json

from fim.slivers.capacities_labels import Capacities, FreeCapacity

CAP_FIELDS = ("cpu", "core", "ram", "disk", "bw", "burst_size", "unit", "mtu")


# ------------------------------------------------------------------------------------------------ capacities (C15)
def _mk(v, scale):
    v = v if isinstance(v, dict) else {}
    c = Capacities()
    kw = {k: int(x) * scale for k, x in v.items()}
    neg = {k: x for k, x in kw.items() if x < 0}
    pos = {k: x for k, x in kw.items() if x >= 0}
    c = Capacities(**pos)
    for k, x in neg.items():
        c.__dict__[k] = x
    return c


def _vec(c, scale):
    out = {}
    for k, x in c.__dict__.items():        # the object's own fields, as they are now: a lost field shows as absent
        if not isinstance(x, int) or x % scale != 0:
            out[k] = -999999
        else:
            out[k] = x // scale
    return out


def run_capacity_script(script, scale=1):
    total, allocated = Capacities(), Capacities()
    steps = []
    for o in script:
        op = o["op"]
        out, res = "ok", None
        try:
            if op in ("SetTotal", "Allocate", "Release"):
                c = _mk(o["a"], scale)
                if op == "SetTotal":
                    total = c
                elif op == "Allocate":
                    allocated = allocated + c
                else:
                    allocated = allocated - c
                free = FreeCapacity(total=total, allocated=allocated)
                res = {"k": "ledger", "free": {f: getattr(free, f) // scale for f in CAP_FIELDS}}
            elif op == "ShowLedger":
                texts = [str(total), repr(total), str(allocated), repr(allocated)]
                free = FreeCapacity(total=total, allocated=allocated)
                texts.append(str(free))
                assert all(isinstance(t_, str) for t_ in texts)
                res = {"k": "ledger", "free": {f: getattr(free, f) // scale for f in CAP_FIELDS}}
            elif op == "CanFit":
                c = _mk(o["a"], scale)
                free = FreeCapacity(total=total, allocated=allocated)
                res = {"k": "bool", "v": bool(c < free.free), "a": _vec(c, scale), "b": _vec(c, scale)}
            else:
                a, b = _mk(o["a"], scale), _mk(o["b"], scale)
                if op == "Add":
                    r = {"k": "vec", "v": _vec(a + b, scale)}
                elif op == "Sub":
                    r = {"k": "vec", "v": _vec(a - b, scale)}
                elif op == "AddSub":
                    r = {"k": "vec", "v": _vec((a + b) - b, scale)}
                elif op in ("ShowAdd", "ShowSub", "ShowLt"):
                    before = (str(a), repr(a), str(b), repr(b))
                    if op == "ShowAdd":
                        r = {"k": "vec", "v": _vec(a + b, scale)}
                    elif op == "ShowSub":
                        r = {"k": "vec", "v": _vec(a - b, scale)}
                    else:
                        r = {"k": "bool", "v": bool(a < b)}
                    if (str(a), repr(a), str(b), repr(b)) != before:
                        raise AssertionError("an operand prints differently after being printed and used")
                elif op == "Gt":
                    r = {"k": "bool", "v": bool(a > b)}
                elif op == "Lt":
                    r = {"k": "bool", "v": bool(a < b)}
                elif op == "Eq":
                    r = {"k": "bool", "v": bool(a == b)}
                elif op == "NegOfDiff":
                    r = {"k": "names", "v": sorted((b - a).negative_fields())}
                elif op == "Positive":
                    r = {"k": "bool", "v": bool((a - b).positive_fields(list(o["fields"])))}
                elif op == "EncodeDiff":
                    d = a - b
                    text = d.to_json()
                    s = str(d)                      # printable
                    assert isinstance(s, str)
                    enc = json.loads(text) if text else {}
                    r = {"k": "enc", "v": {k: (x // scale if x % scale == 0 else -999999) for k, x in enc.items()}}
                elif op == "FreeOf":
                    fc = FreeCapacity(total=a, allocated=b)
                    str(fc)
                    r = {"k": "vec", "v": {f: getattr(fc, f) // scale for f in CAP_FIELDS}}
                else:
                    raise ValueError(op)
                r["a"], r["b"] = _vec(a, scale), _vec(b, scale)
                res = r
        except Exception as e:  # noqa
            out, res = type(e).__name__, {"k": "none"}
        steps.append({"op": o, "out": out, "res": res,
                      "state": {"total": _vec(total, scale), "allocated": _vec(allocated, scale)}})
    return {"scale": str(scale), "steps": steps}


# ------------------------------------------------------------------------------------------------ catalogues (C18)
def catalog_env(tmpdir):
    """Environment for TLC: the repository's instance-size file as is; the component catalogue re-formatted so that
    the interface order of each entry survives JSON->TLA+ (objects become unordered records there)."""
    import os
    import fim.slivers as fs
    base = os.path.join(os.path.dirname(fs.__file__), "data")
    comp = json.load(open(os.path.join(base, "component_catalog.json")))
    entries = []
    for e in comp:
        entries.append({"Model": e["Model"], "Type": e["Type"], "Details": e["Details"],
                        "AlsoModels": list(e.get("AlsoModels", []) or []),
                        "Interfaces": [[k, int(v)] for k, v in (e.get("Interfaces") or {}).items()]})
    path = os.path.join(tmpdir, "component_catalog_for_tlc.json")
    json.dump({"entries": entries}, open(path, "w"))
    return {"FIM_INSTANCE_SIZES": os.path.join(base, "instance_sizes.json"), "FIM_COMPONENT_CATALOG": path}


def _labels_for(kind, n):
    from fim.slivers.capacities_labels import Labels
    if kind == "none":
        return None
    out = []
    for i in range(1, n + 1):
        if kind == "scalar":
            out.append(Labels(bdf="0000:41:00.%d" % i, mac="00:00:00:00:00:%02x" % i))
        else:
            k = 2 if kind == "list2" else 3
            out.append(Labels(bdf=["0000:41:%02x.%d" % (j, i) for j in range(k)],
                              mac=["00:00:00:00:%02x:%02x" % (j, i) for j in range(k)]))
    return out


def _project_component(cs, nsid, ids):
    comp = {"name": cs.get_name(), "model": cs.get_model(), "type": str(cs.get_type()), "details": cs.get_details()}
    nsi = cs.network_service_info
    if nsi is None:
        return {"comp": comp, "ns": {"name": "-", "type": "-", "layer": "-", "id": "-", "ifs": []}}
    nss = list(nsi.network_services.values())
    assert len(nss) == 1
    ns = nss[0]
    ifs = []
    for isl in ns.interface_info.interfaces.values():
        lab = isl.get_labels()
        mac = lab.mac if lab is not None else None
        if mac is None:
            labidx = 0
        else:
            m = mac[0] if isinstance(mac, list) else mac
            labidx = int(m.split(":")[-1], 16)
        ln = lab.local_name if lab is not None else None
        cap = isl.get_capacities()
        ifs.append({"name": isl.get_name(), "type": str(isl.get_type()) if isl.get_type() is not None else "none",
                    "id": isl.node_id if ids else "generated", "unit": cap.unit, "bw": cap.bw, "labidx": labidx,
                    "local_name": ln if isinstance(ln, list) else [ln]})
    return {"comp": comp, "ns": {"name": ns.get_name(), "type": str(ns.get_type()), "layer": str(ns.get_layer()),
                                 "id": ns.node_id if nsid else "generated", "ifs": ifs}}


def run_catalog_script(script):
    from fim.slivers.instance_catalog import InstanceCatalog
    from fim.slivers import component_catalog as cc
    from fim.slivers.attached_components import ComponentType
    import fim.slivers  # noqa: populates ComponentModelType
    ic = InstanceCatalog()
    cata = cc.ComponentCatalog()
    raw = json.load(open(__import__("os").path.join(__import__("os").path.dirname(cc.__file__), "data", "component_catalog.json")))
    steps = []
    for o in script:
        op = o["op"]
        out, res = "ok", {"k": "none"}
        try:
            if op == "MapInstance":
                name = ic.map_capacities_to_instance(cap=Capacities(core=o["core"], ram=o["ram"], disk=o["disk"]))
                res = {"k": "str", "v": name}
            elif op == "InstanceCaps":
                c = ic.get_instance_capacities(instance_type=o["name"])
                res = {"k": "caps", "known": c is not None,
                       "v": {"core": 0, "ram": 0, "disk": 0} if c is None else {"core": c.core, "ram": c.ram, "disk": c.disk},
                       "others_zero": c is None or all(getattr(c, f) == 0 for f in CAP_FIELDS if f not in ("core", "ram", "disk"))}
            elif op == "ListInstances":
                res = {"k": "names", "v": sorted(ic.list_instances().keys())}
            elif op == "ModelTypeEnum":
                items = sorted(cc.ComponentModelTypeMap.items(), key=lambda kv: kv[0].value)
                res = {"k": "enum", "v": [{"type": v["Type"], "model": v["Model"]} for _, v in items]}
            elif op == "GenComponent":
                e = raw[o["idx"] - 1]
                n_if = len(e.get("Interfaces") or {})
                ids = list(o["ids"]) if o["ids"] else None
                labels = _labels_for(o["labels"], len(ids) if ids else n_if)
                kw = dict(name=o["name"], ns_node_id=o["nsid"] or None, interface_node_ids=ids, interface_labels=labels,
                          parent_name=o["parent"] or None)
                if o["via"] == "model_type":
                    mt = [k for k, v in cc.ComponentModelTypeMap.items() if v is e or (v["Model"] == e["Model"] and v["Type"] == e["Type"])][0]
                    kw["model_type"] = mt
                elif o["via"] == "type_model":
                    kw.update(ctype=ComponentType[e["Type"]], model=e["Model"])
                elif o["via"] == "also_model":
                    kw.update(ctype=ComponentType[e["Type"]], model=e["AlsoModels"][0])
                else:
                    kw.update(ctype=ComponentType.GPU, model="no-such-model")
                cs = cata.generate_component(**kw)
                res = {"k": "comp", "v": _project_component(cs, o["nsid"], ids)}
        except Exception as ex:  # noqa
            out, res = type(ex).__name__, {"k": "none"}
        steps.append({"op": o, "out": out, "res": res})
    return {"steps": steps}


# ------------------------------------------------------------------------------------------------ delegations (C12)
def _details(atype_name, det, variant):
    from fim.slivers.capacities_labels import Labels
    table = {
        ("CAPACITY", "d1"): [dict(core=1, ram=2), dict(unit=3), dict(cpu=1, core=32, ram=384, disk=3000)],
        ("CAPACITY", "d2"): [dict(bw=100), dict(core=2, disk=7), dict(burst_size=5, mtu=9000)],
        ("LABEL", "d1"): [dict(vlan_range="1-100"), dict(ipv4="10.0.0.1", mac=["00:11:22:33:44:55", "00:11:22:33:44:56"]),
                          dict(local_name="p1", bdf="0000:41:00.0")],
        ("LABEL", "d2"): [dict(ipv4_range="192.168.1.1-192.168.1.10"), dict(vlan="100"), dict(asn="65000", ipv6_subnet="2001:db8::/48")],
    }
    kw = table[(atype_name, det)][variant % 3]
    return Capacities(**kw) if atype_name == "CAPACITY" else Labels(**kw)


def _det_name(atype_name, d, variant):
    if d is None:
        return ""
    dd = d if isinstance(d, dict) else d.to_dict()
    for name in ("d1", "d2"):
        if _details(atype_name, name, variant).to_dict() == dd:
            return name
    return "?" + json.dumps(dd, sort_keys=True)


def run_delegation_script(script, variant=0):
    from fim.slivers.delegations import Delegation, Delegations, DelegationType, DelegationFormat, Pools, Pool
    FMT = {"single": DelegationFormat.SinglePool, "definition": DelegationFormat.PoolDefinition, "reference": DelegationFormat.PoolReference}
    RFMT = {v: k for k, v in FMT.items()}
    steps = []
    for o in script:
        op = o["op"]
        tn = o["type"]
        at = DelegationType[tn]
        other = "LABEL" if tn == "CAPACITY" else "CAPACITY"
        out, res = "ok", {"k": "none"}
        try:
            if op == "DelegRoundTrip":
                ds = Delegations(atype=at)
                for did, e in (o["ds"] or {}).items():
                    d = Delegation(atype=at, delegation_id=did, aformat=FMT[e["fmt"]], pool_id=e["pool"] or None)
                    if e["det"]:
                        d.set_details(_details(tn, e["det"], variant))
                    ds.add_delegations(d)
                text = ds.to_json()
                raw = json.loads(text) if text else {}
                wire = {}
                for did, w in raw.items():
                    if "pool" in w:
                        wire[did] = {"pool": w["pool"]}
                    else:
                        wire[did] = {"pool_id": w.get("pool_id"), "det": _det_name(tn, w.get("capacities" if tn == "CAPACITY" else "labels"), variant)}
                back = Delegations.from_json(json_str=text, atype=at)
                decoded = {}
                for did, d in (back.delegations.items() if back is not None else []):
                    decoded[did] = {"fmt": RFMT[d.get_format()], "pool": d.get_pool_name() or "", "det": _det_name(tn, d.get_details(), variant)}
                text2 = back.to_json() if back is not None else ""
                res = {"k": "roundtrip", "wire": wire, "decoded": decoded,
                       "same_text": (json.loads(text2) if text2 else {}) == raw and (text2 == text or back is None),
                       "empty": len(decoded) == 0}
            elif op == "AddDuplicateId":
                ds = Delegations(atype=at)
                d1 = Delegation(atype=at, delegation_id="del1")
                d1.set_details(_details(tn, "d1", variant))
                d2 = Delegation(atype=at, delegation_id="del1", aformat=DelegationFormat.PoolReference, pool_id="pA")
                d3 = Delegation(atype=at, delegation_id="del2")
                d3.set_details(_details(tn, "d2", variant))
                how = o.get("how", "two_calls")
                if how == "two_calls":
                    ds.add_delegations(d1)
                    ds.add_delegations(d2)
                elif how == "one_call":
                    ds.add_delegations(d1, d2)
                else:
                    ds.add_delegations(d1, d3, d2)
            elif op == "DetailsOnReference":
                d = Delegation(atype=at, delegation_id="del1", aformat=DelegationFormat.PoolReference, pool_id="pA")
                d.set_details(_details(tn, "d1", variant))
            elif op == "MixedType":
                d = Delegation(atype=at, delegation_id="del1")
                d.set_details(_details(other, "d1", variant))
            elif op == "DecodeMixedText":
                ds = Delegations(atype=at)
                d = Delegation(atype=at, delegation_id="del1")
                d.set_details(_details(tn, "d1", variant))
                ds.add_delegations(d)
                try:
                    Delegations.from_json(json_str=ds.to_json(), atype=DelegationType[other])
                except Exception:  # noqa: "always rejected" - the class of the rejection is not part of the statement
                    out = "rejected"
            elif op == "PoolsRoundTrip":
                pools = Pools(atype=at)
                for pid, p in o["fam"].items():
                    pl = Pool(atype=at, pool_id=pid, delegation_id=p["del"], defined_on=p["on"], defined_for=list(p["for"]))
                    pl.set_pool_details(_details(tn, p["det"], variant))
                    pools.add_pool(pool=pl)
                pools.build_index_by_delegation_id()
                nd = pools.generate_delegations_by_node_id()
                if o.get("single", "none") != "none":
                    # every node also carries a single-resource delegation of its own, listed first / last
                    nd2 = {}
                    for n, dels in nd.items():
                        own = Delegation(atype=at, delegation_id="del0")
                        own.set_details(_details(tn, "d2", variant))
                        ds = Delegations(atype=at)
                        seq = list(dels.delegations.values())
                        for d in ([own] + seq if o["single"] == "first" else seq + [own]):
                            ds.add_delegations(d)
                        nd2[n] = ds
                    nd = nd2
                nodes = {}
                p2 = Pools(atype=at)
                for n, dels in nd.items():
                    nodes[n] = {did: {"fmt": RFMT[d.get_format()], "pool": d.get_pool_name() or "", "det": _det_name(tn, d.get_details(), variant)}
                                for did, d in dels.delegations.items()}
                    # through the text form, as it is stored on a model element
                    p2.incorporate_delegation(node_id=n, deleg=Delegations.from_json(json_str=dels.to_json(), atype=at))
                p2.validate_pools()
                back = {pid: {"del": p.get_delegation_id(), "on": p.get_defined_on(), "for": sorted(p.get_defined_for()),
                              "det": _det_name(tn, p.get_pool_details(), variant)} for pid, p in p2.pool_by_id.items()}
                res = {"k": "pools", "nodes": nodes, "back": back}
            elif op == "PoolsViaGraph":
                from fim.graph import networkx_property_graph as nxpg
                from fim.graph.networkx_property_graph import NetworkXPropertyGraph, NetworkXGraphImporter
                from fim.graph.resources.networkx_arm import NetworkXARMGraph
                nxpg.NetworkXGraphStorage.storage_instance = None
                imp = NetworkXGraphImporter()
                g = NetworkXPropertyGraph(graph_id="arm-x", importer=imp)
                own = list(o["own"] or [])
                members = set(own) | {"n1", "n2", "n3", "x9"}
                for n in sorted(members):
                    g.add_node(node_id=n, label="NetworkNode", props={"Name": n, "Type": "Server"})
                pools = Pools(atype=at)
                for pid, p in o["fam"].items():
                    pl = Pool(atype=at, pool_id=pid, delegation_id=p["del"], defined_on=p["on"], defined_for=list(p["for"]))
                    pl.set_pool_details(_details(tn, p["det"], variant))
                    pools.add_pool(pool=pl)
                pools.build_index_by_delegation_id()
                dels = {}
                for n in own:
                    ds = Delegations(atype=at)
                    d = Delegation(atype=at, delegation_id="delS")
                    d.set_details(_details(tn, "d2", variant))
                    ds.add_delegations(d)
                    dels[n] = ds
                arm = NetworkXARMGraph(graph=g)
                before = {n: dict(g.get_node_properties(node_id=n)[1]) for n in sorted(members)}
                try:
                    arm.annotate_delegations_and_pools(dels=dels, pools=pools)
                except Exception:
                    if {n: dict(g.get_node_properties(node_id=n)[1]) for n in sorted(members)} != before:
                        raise RuntimeError("refused, but something was written")
                    raise
                nodes = {}
                p2 = Pools(atype=at)
                for n in sorted(members):
                    got = arm.get_delegations(node_id=n, delegation_type=at)
                    if got is None:
                        continue
                    nodes[n] = {did: {"fmt": RFMT[d.get_format()], "pool": d.get_pool_name() or "", "det": _det_name(tn, d.get_details(), variant)}
                                for did, d in got.delegations.items()}
                    if any(d.get_format() != DelegationFormat.SinglePool for d in got.delegations.values()):
                        p2.incorporate_delegation(node_id=n, deleg=got)
                p2.validate_pools()
                back = {pid: {"del": p.get_delegation_id(), "on": p.get_defined_on(), "for": sorted(p.get_defined_for()),
                              "det": _det_name(tn, p.get_pool_details(), variant)} for pid, p in p2.pool_by_id.items()}
                # regrouping by delegation id (one model per id)
                other_pn = "LabelDelegations" if tn == "CAPACITY" else "CapacityDelegations"
                adms, other_absent = {}, True
                for did, ag in arm.generate_adms().items():
                    ent = {}
                    for n in ag.list_all_node_ids():
                        _, props = ag.get_node_properties(node_id=n)
                        if props.get(other_pn) not in (None, "", "None"):
                            other_absent = False
                        got = ag.get_delegations(node_id=n, delegation_type=at) if hasattr(ag, "get_delegations") else None
                        if got is None:
                            from fim.slivers.delegations import Delegations as _D
                            txt = props.get("CapacityDelegations" if tn == "CAPACITY" else "LabelDelegations")
                            got = _D.from_json(json_str=txt, atype=at) if txt not in (None, "", "None") else None
                        if got is None:
                            continue
                        for k2, d in got.delegations.items():
                            if k2 == did:
                                ent[n] = {"fmt": RFMT[d.get_format()], "pool": d.get_pool_name() or "", "det": _det_name(tn, d.get_details(), variant)}
                            else:
                                ent[n + "?" + k2] = {"fmt": "foreign", "pool": "", "det": ""}
                    adms[did] = ent
                    ag.delete_graph()
                res = {"k": "pools", "nodes": nodes, "back": back, "adms": adms, "other_type_absent": other_absent}
                imp.delete_all_graphs()
        except Exception as e:  # noqa
            out, res = type(e).__name__, {"k": "none"}
        steps.append({"op": o, "out": out, "res": res})
    return {"variant": variant, "steps": steps}


# ------------------------------------------------------------------------------------------------ codecs (C03)
LABEL_VALUES = {
    "bdf": ("0000:25:00.0", "0000:81:00.1"), "mac": ("00:11:22:33:44:55", "0c:42:a1:be:8f:d4"),
    "ipv4": ("192.168.1.1", "10.0.0.2"), "ipv4_range": ("192.168.1.1-192.168.1.10", "10.0.0.1-10.0.0.9"),
    "ipv4_subnet": ("192.168.1.0/24", "10.0.0.0/8"), "ipv6": ("2001:db8::1", "fe80::2"),
    "ipv6_range": ("2001:db8::1-2001:db8::9", "fe80::1-fe80::5"), "ipv6_subnet": ("2001:db8::/48", "fe80::/64"),
    "asn": ("65000", "12345"), "vlan": ("100", "200"), "vlan_range": ("1-100", "200-300"), "inner_vlan": ("10", "20"),
    "instance": ("instance-0001", "i-2"), "instance_parent": ("renc-w1.fabric", "uky-w2"), "local_name": ("p1", "HundredGigE0/0/0/5"),
    "local_type": ("Bundle-Ether", "PCI"), "device_name": ("renc-data-sw", "uky-data-sw"), "bgp_key": ("abcdef12", "key-0001"),
    "account_id": ("acct-123", "1234567890"), "region": ("us-east-1", "eu-west"), "usb_id": ("1234:abcd", "0001:0002"),
    "numa": ("0", "3"),
}
STR_VALUES = {"instance_type": ("fabric.c2.m8.d10", "fabric.c4.m16.d100"), "postal": ("100 Europa Dr., Chapel Hill", "Lexington KY"),
              "reservation_id": ("res-0001", "res-2"), "reservation_state": ("Active", "Failed"), "error_message": ("", "boom: it broke"),
              "sub_graph_id": ("sg-1", "sg-2"), "parent_graph_id": ("pg-1", "pg-2"), "adm_graph_ids": ("adm-1", "adm-2")}


def _codec_class(name):
    from fim.slivers import capacities_labels as cl
    return getattr(cl, name)


def _field_values(cls, f):
    if cls == "Labels":
        return LABEL_VALUES[f]
    return STR_VALUES.get(f, ("val-1", "val-2"))


def _conc_field(cls, f, t):
    if t.startswith("i:"):
        return int(t[2:])
    if t.startswith("f:"):
        return float(t[2:])
    if t.startswith("b:"):
        return t == "b:true"
    vals = _field_values(cls, f)
    if t == "s:t1":
        return vals[0] if vals[0] != "" else "v1"
    if t == "s:t2":
        return vals[1]
    if t == "[s:t1,s:t2]":
        return [vals[0] if vals[0] != "" else "v1", vals[1]]
    raise ValueError(t)


def _tok_field(cls, f, v):
    if v is None:
        return "unset"
    if isinstance(v, bool):
        return "b:true" if v else "b:false"
    if isinstance(v, int):
        return "i:%d" % v
    if isinstance(v, float):
        return "f:%r" % v
    vals = _field_values(cls, f)
    names = {(vals[0] if vals[0] != "" else "v1"): "s:t1", vals[1]: "s:t2"}
    if isinstance(v, list):
        return "[" + ",".join(names.get(x, "s:" + str(x)) for x in v) + "]"
    return names.get(v, "s:" + str(v))


def _fields(cls, obj):
    return {f: _tok_field(cls, f, v) for f, v in obj.__dict__.items()}


def _simple_roundtrip(o):
    """returns (dec value class, absent, same_text)"""
    c, v = o["cls"], o["val"]
    if c == "Tags":
        from fim.slivers.tags import Tags
        tags = {"none": [], "one": ["blue"], "two": ["blue", "heavy-user_1"]}[v]
        t = Tags(*tags)
        text = t.to_json()
        back = Tags.from_json(text)
        dec = {0: "none", 1: "one", 2: "two"}[len(back.tags)] if back is not None and list(back.tags) == tags else "?"
        return dec, back is None, back is not None and back.to_json() == text
    if c in ("MeasurementData", "UserData", "LayoutData"):
        from fim.slivers import json_data as jd
        K = getattr(jd, c)
        inp = {"none": None, "obj": {"k1": ["some", "list"], "k2": 5}, "text": '{"a": 1, "b": [2, 3]}', "emptyobj": {}, "list": [1, 2, "x"],
               "zero": 0, "fzero": 0.0, "false": False, "emptylist": [], "emptystr": ""}[v]
        d = K(inp)
        text = d.json
        back = K(text)
        want = {"none": {}, "obj": {"k1": ["some", "list"], "k2": 5}, "text": {"a": 1, "b": [2, 3]}, "emptyobj": {}, "list": [1, 2, "x"],
                "zero": 0, "fzero": 0.0, "false": False, "emptylist": [], "emptystr": ""}[v]
        same = back.data == want and d.data == want and type(back.data) is type(want) and type(d.data) is type(want)
        dec = ("emptyobj" if v == "none" else v) if same else "?"
        return dec, False, back.json == text
    if c == "Gateway":
        from fim.slivers.gateway import Gateway
        from fim.slivers.capacities_labels import Labels
        lab = {"v4": Labels(ipv4_subnet="192.168.1.0/24", ipv4="192.168.1.1"),
               "v6": Labels(ipv6_subnet="2001:db8::/48", ipv6="2001:db8::1"),
               "v4mac": Labels(ipv4_subnet="10.0.0.0/8", ipv4="10.0.0.1", mac="00:11:22:33:44:55"),
               "v6mac": Labels(ipv6_subnet="2001:db8::/48", ipv6="2001:db8::1", mac="00:11:22:33:44:66")}[v]
        g = Gateway(lab)
        text = g.to_json()
        back = Gateway.from_json(text)
        same = (back.gateway, back.subnet, back.mac) == (g.gateway, g.subnet, g.mac) == (lab.ipv4 or lab.ipv6, lab.ipv4_subnet or lab.ipv6_subnet, lab.mac)
        return (v if same else "?"), back is None or back.lab is None, back.to_json() == text
    if c in ("PathInfo", "ERO"):
        from fim.slivers.path_info import PathInfo, ERO, Path, PathRepresentationType
        K = PathInfo if c == "PathInfo" else ERO
        kind = v.split("_")[0]
        if kind == "graph":
            p = K(PathRepresentationType.Graph) if c == "PathInfo" else ERO(PathRepresentationType.Graph, strict=v.endswith("strict"))
            p.set("graph-id-1")
        else:
            p = K() if c == "PathInfo" else ERO(strict=v.endswith("strict"))
            pa = Path()
            if kind == "asym":
                pa.set(a2z=["a", "b", "c"], z2a=["c", "x", "a"])
            else:
                pa.set_symmetric(["10.1.1.1", "10.1.1.2"])
            p.set(pa)
        text = p.to_json()
        back = K.from_json(text)
        same = back is not None and back.to_json() == text and back.get()[0] == p.get()[0] and \
            (back.get()[1] == p.get()[1] if kind == "graph" else back.get()[1].get() == p.get()[1].get()) and \
            (c == "PathInfo" or back.get_strict() == p.get_strict())
        return (v if same else "?"), back is None, back is not None and back.to_json() == text
    from fim.graph import typed_tuples as tt
    K = {"Label": tt.Label, "Capacity": tt.Capacity, "LocationTuple": tt.Location, "AllocationConstraint": tt.AllocationConstraint}[c]
    atype = K(atype="x", aval="y").lv.get_types(K(atype="x", aval="y").category)[0] if False else None
    inst0 = K.__new__(K)
    K.__init__.__wrapped__ if False else None
    types = tt.TypeValidator({"Label": "label", "Capacity": "cap", "LocationTuple": "location", "AllocationConstraint": "constraint"}[c],
                             {"Label": "label_types.json", "Capacity": "capacity_types.json", "LocationTuple": "location_types.json",
                              "AllocationConstraint": "constraint_types.json"}[c])
    cat = {"Label": "label", "Capacity": "cap", "LocationTuple": "location", "AllocationConstraint": "constraint"}[c]
    atype = types.get_types(cat)[0]
    val = {"plain": "value-1", "colon": "a:b:c"}[v]
    x = K(atype=atype, aval=val)
    text = x.get_as_string()
    back = K(fromstring=text)
    same = back.get_type() == x.get_type() and back.get_val() == x.get_val()
    return (v if same else "?"), False, back.get_as_string() == text


def run_codec_script(script):
    from fim.slivers.maintenance_mode import MaintenanceInfo, MaintenanceEntry, MaintenanceState
    from datetime import datetime, timezone
    maint = MaintenanceInfo()
    steps = []

    def mstate():
        return {"entries": {n: str(e.state) for n, e in maint._nodes.items()}, "final": bool(maint._lock)}
    for o in script:
        op = o["op"]
        out, res = "ok", {"k": "none"}
        try:
            if op in ("RoundTrip", "Update", "DecodeExtra"):
                cls = o["cls"]
                K = _codec_class(cls)
                kw = {f: _conc_field(cls, f, t) for f, t in (o["asg"] or {}).items()}
                obj = K(**kw)
                before = _fields(cls, obj)
                if op == "RoundTrip":
                    text = obj.to_json()
                    raw = json.loads(text) if text else {}
                    back = K.from_json(text)
                    res = {"k": "rt", "enc": {f: _tok_field(cls, f, v) for f, v in raw.items()}, "empty": text == "",
                           "absent": back is None, "dec": _fields(cls, back if back is not None else K()),
                           "same_text": True if back is None else back.to_json() == text,
                           "orig_untouched": _fields(cls, obj) == before}
                elif op == "Update":
                    kw2 = {f: _conc_field(cls, f, t) for f, t in o["kw"].items()}
                    new = K.update(obj, **kw2)
                    res = {"k": "upd", "new": _fields(cls, new), "orig": _fields(cls, obj), "distinct": new is not obj}
                else:
                    text = obj.to_json()
                    d = json.loads(text) if text else {}
                    kind = {"Capacities": "int", "Flags": "bool"}.get(cls, "str")
                    same = {"int": 5, "bool": True, "str": "x"}[kind]
                    foreign = {"int": "x", "bool": "x", "str": 5}[kind]
                    if o["extra"] == "same_first":       # the unknown key is met BEFORE the known ones
                        d = dict([("aaa_future", same)] + list(d.items()))
                    else:
                        d["zz_unknown"] = same if o["extra"] == "same" else foreign
                    back = K.from_json(json.dumps(d))
                    res = {"k": "dec", "dec": _fields(cls, back)}
            elif op == "SimpleRoundTrip":
                dec, absent, same = _simple_roundtrip(o)
                res = {"k": "simple", "dec": dec, "absent": bool(absent), "same_text": bool(same)}
            elif op == "MNew":
                maint = MaintenanceInfo()
            elif op == "MAdd":
                maint.add(o["name"], MaintenanceEntry(state=MaintenanceState[o["state"]],
                                                      deadline=datetime(2026, 10, 1, 12, 0, tzinfo=timezone.utc)))
            elif op == "MRem":
                maint.rem(o["name"])
            elif op == "MPop":
                e = maint.pop(o["name"])
                res = {"k": "val", "v": str(e.state)}
            elif op == "MFinalize":
                maint.finalize()
            elif op == "MToJson":
                raw = json.loads(maint.to_json())
                res = {"k": "entries", "v": {n: e["state"] for n, e in raw.items()}}
            elif op == "MIter":
                res = {"k": "entries", "v": {n: str(e.state) for n, e in maint.iter()}}
            elif op == "MReload":
                back = MaintenanceInfo.from_json(maint.to_json())
                ok = back is not None and all(back.get(n) == maint.get(n) for n in maint.list_names()) and back.to_json() == maint.to_json()
                frozen = False
                try:
                    back.add("zz", MaintenanceEntry(state=MaintenanceState.Maint))
                except Exception:  # noqa
                    frozen = True
                res = {"k": "entries", "v": {n: (str(e.state) if ok and frozen else "!" + str(e.state)) for n, e in back.list_details()}}
            elif op == "MCopyEdit":
                c = maint.copy()
                c.add(o["add"], MaintenanceEntry(state=MaintenanceState.Maint))
                if o["rem"] != "none" and o["rem"] in dict(c.list_details()):
                    c.rem(o["rem"])
                res = {"k": "entries", "v": {n: str(e.state) for n, e in c.list_details()}}
            elif op == "MCopy":
                c = maint.copy()
                c.add("zz-copy-only", MaintenanceEntry(state=MaintenanceState.Maint))     # the copy is open, the original untouched
                c.rem("zz-copy-only")
                res = {"k": "entries", "v": {n: str(e.state) for n, e in c.list_details()}}
                maint, _orig = c, maint
            else:
                raise ValueError(op)
        except Exception as e:  # noqa
            out, res = type(e).__name__, {"k": "none"}
        steps.append({"op": o, "out": out, "res": res, "state": mstate()})
    return {"steps": steps}
