"""Adapters for the value-level layers (capacities C15, instance sizing / catalogue C18, codecs C03, validation C16,
delegations C12).  Concretise, call, project - never judge."""
import json

from fim.slivers.capacities_labels import Capacities, FreeCapacity

CAP_FIELDS = ("cpu", "core", "ram", "disk", "bw", "burst_size", "unit", "mtu")


# ------------------------------------------------------------------------------------------------ capacities (C15)
def _mk(v, scale):
    v = v if isinstance(v, dict) else {}
    c = Capacities()
    kw = {k: int(x) * scale for k, x in v.items()}
    neg = {k: x for k, x in kw.items() if x < 0}
    pos = {k: x for k, x in kw.items() if x >= 0}
    c = Capacities(**pos)
    for k, x in neg.items():
        c.__dict__[k] = x
    return c


def _vec(c, scale):
    out = {}
    for k, x in c.__dict__.items():
        if not isinstance(x, int) or x % scale != 0:
            out[k] = -999999
        else:
            out[k] = x // scale
    return out


def run_capacity_script(script, scale=1):
    total, allocated = Capacities(), Capacities()
    steps = []
    for o in script:
        op = o["op"]
        out, res = "ok", None
        try:
            if op in ("SetTotal", "Allocate", "Release"):
                c = _mk(o["a"], scale)
                if op == "SetTotal":
                    total = c
                elif op == "Allocate":
                    allocated = allocated + c
                else:
                    allocated = allocated - c
                free = FreeCapacity(total=total, allocated=allocated)
                res = {"k": "ledger", "free": {f: getattr(free, f) // scale for f in CAP_FIELDS}}
            elif op == "CanFit":
                c = _mk(o["a"], scale)
                free = FreeCapacity(total=total, allocated=allocated)
                res = {"k": "bool", "v": bool(c < free.free), "a": _vec(c, scale), "b": _vec(c, scale)}
            else:
                a, b = _mk(o["a"], scale), _mk(o["b"], scale)
                if op == "Add":
                    r = {"k": "vec", "v": _vec(a + b, scale)}
                elif op == "Sub":
                    r = {"k": "vec", "v": _vec(a - b, scale)}
                elif op == "AddSub":
                    r = {"k": "vec", "v": _vec((a + b) - b, scale)}
                elif op == "Gt":
                    r = {"k": "bool", "v": bool(a > b)}
                elif op == "Lt":
                    r = {"k": "bool", "v": bool(a < b)}
                elif op == "Eq":
                    r = {"k": "bool", "v": bool(a == b)}
                elif op == "NegOfDiff":
                    r = {"k": "names", "v": sorted((b - a).negative_fields())}
                elif op == "Positive":
                    r = {"k": "bool", "v": bool((a - b).positive_fields(list(o["fields"])))}
                elif op == "EncodeDiff":
                    d = a - b
                    text = d.to_json()
                    s = str(d)                      # printable
                    assert isinstance(s, str)
                    enc = json.loads(text) if text else {}
                    r = {"k": "enc", "v": {k: (x // scale if x % scale == 0 else -999999) for k, x in enc.items()}}
                elif op == "FreeOf":
                    fc = FreeCapacity(total=a, allocated=b)
                    str(fc)
                    r = {"k": "vec", "v": {f: getattr(fc, f) // scale for f in CAP_FIELDS}}
                else:
                    raise ValueError(op)
                r["a"], r["b"] = _vec(a, scale), _vec(b, scale)
                res = r
        except Exception as e:  # noqa
            out, res = type(e).__name__, {"k": "none"}
        steps.append({"op": o, "out": out, "res": res,
                      "state": {"total": _vec(total, scale), "allocated": _vec(allocated, scale)}})
    return {"scale": str(scale), "steps": steps}


# ------------------------------------------------------------------------------------------------ catalogues (C18)
def catalog_env(tmpdir):
    """Environment for TLC: the repository's instance-size file as is; the component catalogue re-formatted so that
    the interface order of each entry survives JSON->TLA+ (objects become unordered records there)."""
    import os
    import fim.slivers as fs
    base = os.path.join(os.path.dirname(fs.__file__), "data")
    comp = json.load(open(os.path.join(base, "component_catalog.json")))
    entries = []
    for e in comp:
        entries.append({"Model": e["Model"], "Type": e["Type"], "Details": e["Details"],
                        "AlsoModels": list(e.get("AlsoModels", []) or []),
                        "Interfaces": [[k, int(v)] for k, v in (e.get("Interfaces") or {}).items()]})
    path = os.path.join(tmpdir, "component_catalog_for_tlc.json")
    json.dump({"entries": entries}, open(path, "w"))
    return {"FIM_INSTANCE_SIZES": os.path.join(base, "instance_sizes.json"), "FIM_COMPONENT_CATALOG": path}


def _labels_for(kind, n):
    from fim.slivers.capacities_labels import Labels
    if kind == "none":
        return None
    out = []
    for i in range(1, n + 1):
        if kind == "scalar":
            out.append(Labels(bdf="0000:41:00.%d" % i, mac="00:00:00:00:00:%02x" % i))
        else:
            k = 2 if kind == "list2" else 3
            out.append(Labels(bdf=["0000:41:%02x.%d" % (j, i) for j in range(k)],
                              mac=["00:00:00:00:%02x:%02x" % (j, i) for j in range(k)]))
    return out


def _project_component(cs, nsid, ids):
    comp = {"name": cs.get_name(), "model": cs.get_model(), "type": str(cs.get_type()), "details": cs.get_details()}
    nsi = cs.network_service_info
    if nsi is None:
        return {"comp": comp, "ns": {"name": "-", "type": "-", "layer": "-", "id": "-", "ifs": []}}
    nss = list(nsi.network_services.values())
    assert len(nss) == 1
    ns = nss[0]
    ifs = []
    for isl in ns.interface_info.interfaces.values():
        lab = isl.get_labels()
        mac = lab.mac if lab is not None else None
        if mac is None:
            labidx = 0
        else:
            m = mac[0] if isinstance(mac, list) else mac
            labidx = int(m.split(":")[-1], 16)
        ln = lab.local_name if lab is not None else None
        cap = isl.get_capacities()
        ifs.append({"name": isl.get_name(), "type": str(isl.get_type()) if isl.get_type() is not None else "none",
                    "id": isl.node_id if ids else "generated", "unit": cap.unit, "bw": cap.bw, "labidx": labidx,
                    "local_name": ln if isinstance(ln, list) else [ln]})
    return {"comp": comp, "ns": {"name": ns.get_name(), "type": str(ns.get_type()), "layer": str(ns.get_layer()),
                                 "id": ns.node_id if nsid else "generated", "ifs": ifs}}


def run_catalog_script(script):
    from fim.slivers.instance_catalog import InstanceCatalog
    from fim.slivers import component_catalog as cc
    from fim.slivers.attached_components import ComponentType
    import fim.slivers  # noqa: populates ComponentModelType
    ic = InstanceCatalog()
    cata = cc.ComponentCatalog()
    raw = json.load(open(__import__("os").path.join(__import__("os").path.dirname(cc.__file__), "data", "component_catalog.json")))
    steps = []
    for o in script:
        op = o["op"]
        out, res = "ok", {"k": "none"}
        try:
            if op == "MapInstance":
                name = ic.map_capacities_to_instance(cap=Capacities(core=o["core"], ram=o["ram"], disk=o["disk"]))
                res = {"k": "str", "v": name}
            elif op == "InstanceCaps":
                c = ic.get_instance_capacities(instance_type=o["name"])
                res = {"k": "caps", "known": c is not None,
                       "v": {"core": 0, "ram": 0, "disk": 0} if c is None else {"core": c.core, "ram": c.ram, "disk": c.disk},
                       "others_zero": c is None or all(getattr(c, f) == 0 for f in CAP_FIELDS if f not in ("core", "ram", "disk"))}
            elif op == "ListInstances":
                res = {"k": "names", "v": sorted(ic.list_instances().keys())}
            elif op == "ModelTypeEnum":
                items = sorted(cc.ComponentModelTypeMap.items(), key=lambda kv: kv[0].value)
                res = {"k": "enum", "v": [{"type": v["Type"], "model": v["Model"]} for _, v in items]}
            elif op == "GenComponent":
                e = raw[o["idx"] - 1]
                n_if = len(e.get("Interfaces") or {})
                ids = list(o["ids"]) if o["ids"] else None
                labels = _labels_for(o["labels"], len(ids) if ids else n_if)
                kw = dict(name=o["name"], ns_node_id=o["nsid"] or None, interface_node_ids=ids, interface_labels=labels,
                          parent_name=o["parent"] or None)
                if o["via"] == "model_type":
                    mt = [k for k, v in cc.ComponentModelTypeMap.items() if v is e or (v["Model"] == e["Model"] and v["Type"] == e["Type"])][0]
                    kw["model_type"] = mt
                elif o["via"] == "type_model":
                    kw.update(ctype=ComponentType[e["Type"]], model=e["Model"])
                elif o["via"] == "also_model":
                    kw.update(ctype=ComponentType[e["Type"]], model=e["AlsoModels"][0])
                else:
                    kw.update(ctype=ComponentType.GPU, model="no-such-model")
                cs = cata.generate_component(**kw)
                res = {"k": "comp", "v": _project_component(cs, o["nsid"], ids)}
        except Exception as ex:  # noqa
            out, res = type(ex).__name__, {"k": "none"}
        steps.append({"op": o, "out": out, "res": res})
    return {"steps": steps}


# ------------------------------------------------------------------------------------------------ delegations (C12)
def _details(atype_name, det, variant):
    from fim.slivers.capacities_labels import Labels
    table = {
        ("CAPACITY", "d1"): [dict(core=1, ram=2), dict(unit=3), dict(cpu=1, core=32, ram=384, disk=3000)],
        ("CAPACITY", "d2"): [dict(bw=100), dict(core=2, disk=7), dict(burst_size=5, mtu=9000)],
        ("LABEL", "d1"): [dict(vlan_range="1-100"), dict(ipv4="10.0.0.1", mac=["00:11:22:33:44:55", "00:11:22:33:44:56"]),
                          dict(local_name="p1", bdf="0000:41:00.0")],
        ("LABEL", "d2"): [dict(ipv4_range="192.168.1.1-192.168.1.10"), dict(vlan="100"), dict(asn="65000", ipv6_subnet="2001:db8::/48")],
    }
    kw = table[(atype_name, det)][variant % 3]
    return Capacities(**kw) if atype_name == "CAPACITY" else Labels(**kw)


def _det_name(atype_name, d, variant):
    if d is None:
        return ""
    dd = d if isinstance(d, dict) else d.to_dict()
    for name in ("d1", "d2"):
        if _details(atype_name, name, variant).to_dict() == dd:
            return name
    return "?" + json.dumps(dd, sort_keys=True)


def run_delegation_script(script, variant=0):
    from fim.slivers.delegations import Delegation, Delegations, DelegationType, DelegationFormat, Pools, Pool
    FMT = {"single": DelegationFormat.SinglePool, "definition": DelegationFormat.PoolDefinition, "reference": DelegationFormat.PoolReference}
    RFMT = {v: k for k, v in FMT.items()}
    steps = []
    for o in script:
        op = o["op"]
        tn = o["type"]
        at = DelegationType[tn]
        other = "LABEL" if tn == "CAPACITY" else "CAPACITY"
        out, res = "ok", {"k": "none"}
        try:
            if op == "DelegRoundTrip":
                ds = Delegations(atype=at)
                for did, e in (o["ds"] or {}).items():
                    d = Delegation(atype=at, delegation_id=did, aformat=FMT[e["fmt"]], pool_id=e["pool"] or None)
                    if e["det"]:
                        d.set_details(_details(tn, e["det"], variant))
                    ds.add_delegations(d)
                text = ds.to_json()
                raw = json.loads(text) if text else {}
                wire = {}
                for did, w in raw.items():
                    if "pool" in w:
                        wire[did] = {"pool": w["pool"]}
                    else:
                        wire[did] = {"pool_id": w.get("pool_id"), "det": _det_name(tn, w.get("capacities" if tn == "CAPACITY" else "labels"), variant)}
                back = Delegations.from_json(json_str=text, atype=at)
                decoded = {}
                for did, d in (back.delegations.items() if back is not None else []):
                    decoded[did] = {"fmt": RFMT[d.get_format()], "pool": d.get_pool_name() or "", "det": _det_name(tn, d.get_details(), variant)}
                text2 = back.to_json() if back is not None else ""
                res = {"k": "roundtrip", "wire": wire, "decoded": decoded,
                       "same_text": (json.loads(text2) if text2 else {}) == raw and (text2 == text or back is None),
                       "empty": len(decoded) == 0}
            elif op == "AddDuplicateId":
                ds = Delegations(atype=at)
                d1 = Delegation(atype=at, delegation_id="del1")
                d1.set_details(_details(tn, "d1", variant))
                d2 = Delegation(atype=at, delegation_id="del1", aformat=DelegationFormat.PoolReference, pool_id="pA")
                d3 = Delegation(atype=at, delegation_id="del2")
                d3.set_details(_details(tn, "d2", variant))
                how = o.get("how", "two_calls")
                if how == "two_calls":
                    ds.add_delegations(d1)
                    ds.add_delegations(d2)
                elif how == "one_call":
                    ds.add_delegations(d1, d2)
                else:
                    ds.add_delegations(d1, d3, d2)
            elif op == "DetailsOnReference":
                d = Delegation(atype=at, delegation_id="del1", aformat=DelegationFormat.PoolReference, pool_id="pA")
                d.set_details(_details(tn, "d1", variant))
            elif op == "MixedType":
                d = Delegation(atype=at, delegation_id="del1")
                d.set_details(_details(other, "d1", variant))
            elif op == "DecodeMixedText":
                ds = Delegations(atype=at)
                d = Delegation(atype=at, delegation_id="del1")
                d.set_details(_details(tn, "d1", variant))
                ds.add_delegations(d)
                try:
                    Delegations.from_json(json_str=ds.to_json(), atype=DelegationType[other])
                except Exception:  # noqa: "always rejected" - the class of the rejection is not part of the statement
                    out = "rejected"
            elif op == "PoolsRoundTrip":
                pools = Pools(atype=at)
                for pid, p in o["fam"].items():
                    pl = Pool(atype=at, pool_id=pid, delegation_id=p["del"], defined_on=p["on"], defined_for=list(p["for"]))
                    pl.set_pool_details(_details(tn, p["det"], variant))
                    pools.add_pool(pool=pl)
                pools.build_index_by_delegation_id()
                nd = pools.generate_delegations_by_node_id()
                nodes = {}
                p2 = Pools(atype=at)
                for n, dels in nd.items():
                    nodes[n] = {did: {"fmt": RFMT[d.get_format()], "pool": d.get_pool_name() or "", "det": _det_name(tn, d.get_details(), variant)}
                                for did, d in dels.delegations.items()}
                    # through the text form, as it is stored on a model element
                    p2.incorporate_delegation(node_id=n, deleg=Delegations.from_json(json_str=dels.to_json(), atype=at))
                p2.validate_pools()
                back = {pid: {"del": p.get_delegation_id(), "on": p.get_defined_on(), "for": sorted(p.get_defined_for()),
                              "det": _det_name(tn, p.get_pool_details(), variant)} for pid, p in p2.pool_by_id.items()}
                res = {"k": "pools", "nodes": nodes, "back": back}
        except Exception as e:  # noqa
            out, res = type(e).__name__, {"k": "none"}
        steps.append({"op": o, "out": out, "res": res})
    return {"variant": variant, "steps": steps}
