---------------------------- MODULE APA_FimCapacity ----------------------------
(***************************************************************************)
(* Apalache (symbolic) check of the capacity laws for ALL integer vectors: *)
(* TLC checks them on a finite family (MC_FimCapacity); here a, b, c,      *)
(* total, allocated are arbitrary functions Field -> Int and the SMT       *)
(* solver must find no counterexample.  Also the ledger step: allocating   *)
(* and releasing arbitrary amounts keeps free + allocated = total and      *)
(* "fits" agrees with "the remainder has no negative field".               *)
(*   apalache-mc check --init=Init --next=Next --inv=Inv --length=1        *)
(***************************************************************************)
EXTENDS FimCapacityAlgebra

VARIABLES
    \* @type: Str -> Int;
    a,
    \* @type: Str -> Int;
    b,
    \* @type: Str -> Int;
    c,
    \* @type: Str -> Int;
    total,
    \* @type: Str -> Int;
    allocated

Init == /\ a \in [Fields -> Int] /\ b \in [Fields -> Int] /\ c \in [Fields -> Int]
        /\ total \in [Fields -> Int] /\ allocated \in [Fields -> Int]

\* one ledger step with an arbitrary request: allocate it, release it, or replace the total
Next == /\ a' \in [Fields -> Int] /\ b' = b /\ c' = c
        /\ \/ allocated' = Add(allocated, a) /\ total' = total
           \/ allocated' = Sub(allocated, a) /\ total' = total
           \/ total' = a /\ allocated' = allocated

Inv == /\ Laws(a, b, c)
       /\ LedgerLaw(total, allocated)
       \* a request fits into what is free exactly when taking it leaves no negative field
       /\ (Le(a, FreeOf(total, allocated)) <=> NegFields(FreeOf(total, Add(allocated, a))) = {})
       \* negative results are values like any other: subtracting and adding back is the identity
       /\ Add(Sub(Zero, a), a) = Zero

\* non-vacuity probe: "fits within" is NOT a total order - the solver must produce two incomparable vectors
Probe_FitsIsTotal == Le(a, b) \/ Le(b, a)
=============================================================================
