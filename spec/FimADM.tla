---------------------------- MODULE FimADM ----------------------------
(***************************************************************************)
(* C13: partitioning an aggregate resource model by delegation             *)
(* (fim/graph/resources/abc_arm.py catalog_delegations / generate_adms,    *)
(* abc_adm.py rewrite_delegations).                                        *)
(*                                                                         *)
(* Aggregate model  A = [n, e]                                             *)
(*   n : [nid -> [cls, props, stitch, deleg]]                              *)
(*       deleg : [type -> [delegation id -> details token]]                *)
(*   e : set of [ends |-> {a, b}, rel |-> "has" | "connects"]              *)
(* A per-delegation model has the same shape (only its own entries).       *)
(***************************************************************************)
EXTENDS Naturals, Sequences, FiniteSets, TLC, SequencesExt, FiniteSetsExt

Fn(f) == [x \in DOMAIN f |-> f[x]]
Types == {"cap", "lab"}
EmptyARM == [n |-> <<>>, e |-> {}]

DelIds(A) == UNION {UNION {DOMAIN A.n[x].deleg[t] : t \in DOMAIN A.n[x].deleg} : x \in DOMAIN A.n}
Annotated(A, d) == {x \in DOMAIN A.n : \E t \in DOMAIN A.n[x].deleg : d \in DOMAIN A.n[x].deleg[t]}
Stitch(A) == {x \in DOMAIN A.n : A.n[x].stitch}
Nbrs(A, x, rel, cls) == {y \in DOMAIN A.n : A.n[y].cls = cls /\ \E ed \in A.e : ed.ends = {x, y} /\ ed.rel = rel}
CPs(A, S) == {x \in S : A.n[x].cls = "ConnectionPoint"}

\* the elements of the partition for delegation d (constructive, follows the tracing of generate_adms)
Keep(A, d) ==
    LET k0   == Annotated(A, d) \cup Stitch(A)
        c0   == CPs(A, k0)
        lks  == UNION {Nbrs(A, c, "connects", "Link") : c \in c0}
        \* the peer interfaces across each of those links
        prs  == UNION {UNION {Nbrs(A, l, "connects", "ConnectionPoint") \ {c} : l \in Nbrs(A, c, "connects", "Link")} : c \in c0}
        c1   == c0 \cup prs
        svcs == UNION {Nbrs(A, c, "connects", "NetworkService") : c \in c1}
        own  == UNION {Nbrs(A, s, "has", "NetworkNode") \cup Nbrs(A, s, "has", "Component") : s \in svcs}
    IN  k0 \cup lks \cup prs \cup svcs \cup own
\* delegations of one node restricted to d (a type without an entry for d disappears)
RestrictTo(dg, d) == [t \in {u \in DOMAIN dg : d \in DOMAIN dg[u]} |-> [i \in {d} |-> dg[t][d]]]
ADM(A, d) ==
    LET K == Keep(A, d) IN
    [n |-> [x \in K |-> [A.n[x] EXCEPT !.deleg = RestrictTo(@, d)]],
     e |-> {ed \in A.e : ed.ends \subseteq K}]
Partition(A) == [d \in DelIds(A) |-> ADM(A, d)]
\* re-keying a partition's delegations to a graph id changes only the key
Rekey(M, d, gid) == [M EXCEPT !.n = [x \in DOMAIN M.n |-> [M.n[x] EXCEPT !.deleg = [t \in DOMAIN @ |-> [i \in {gid} |-> @[t][d]]]]]]

R(S, out, res) == [st |-> S, out |-> out, res |-> res]
Apply(S, o) ==
    CASE o.op = "LoadARM"   -> R(o.arm, "ok", [k |-> "none"])
      [] o.op = "Partition" -> IF DOMAIN S.n = {} THEN R(S, "PropertyGraphQueryException", [k |-> "none"])
                               ELSE R(S, "ok", [k |-> "adms", v |-> Partition(S)])                 \* the aggregate is untouched
      [] o.op = "PartitionAndRekey" -> R(S, "ok", [k |-> "adms", v |-> [d \in DelIds(S) |-> Rekey(ADM(S, d), d, "G-" \o d)]])
      \* re-keying to the key the entries already have, and re-keying twice, change nothing more
      [] o.op = "PartitionAndRekeySame"  -> R(S, "ok", [k |-> "adms", v |-> Partition(S)])
      [] o.op = "PartitionAndRekeyTwice" -> R(S, "ok", [k |-> "adms", v |-> [d \in DelIds(S) |-> Rekey(ADM(S, d), d, "G-" \o d)]])
      \* the aggregate model grows (it is a live view): the next partition is that of the grown model
      [] o.op = "Grow" -> R([S EXCEPT !.n = [x \in (DOMAIN S.n) \cup {o.x} |-> IF x = o.x THEN o.nd ELSE S.n[x]]], "ok", [k |-> "none"])

\* ---------------------------------------------------------------- the clauses of the statement, on (A, its partition)
DelegatedPresent(A, P) == \A d \in DOMAIN P : \A x \in Annotated(A, d) : x \in DOMAIN P[d].n /\ P[d].n[x].deleg = RestrictTo(A.n[x].deleg, d)
NoForeignEntry(A, P)   == \A d \in DOMAIN P : \A x \in DOMAIN P[d].n : \A t \in DOMAIN P[d].n[x].deleg : DOMAIN P[d].n[x].deleg[t] = {d}
SubModel(A, P) == \A d \in DOMAIN P :
    /\ DOMAIN P[d].n \subseteq DOMAIN A.n
    /\ \A x \in DOMAIN P[d].n : [P[d].n[x] EXCEPT !.deleg = <<>>] = [A.n[x] EXCEPT !.deleg = <<>>]
    /\ P[d].e = {ed \in A.e : ed.ends \subseteq DOMAIN P[d].n}
InterfaceKeepsContext(A, P) == \A d \in DOMAIN P :
    \* interfaces delegated to d (or stitching): their link and their peer across it are kept
    /\ \A c \in CPs(A, Annotated(A, d) \cup Stitch(A)) :
          /\ Nbrs(A, c, "connects", "Link") \subseteq DOMAIN P[d].n
          /\ \A l \in Nbrs(A, c, "connects", "Link") : Nbrs(A, l, "connects", "ConnectionPoint") \subseteq DOMAIN P[d].n
    \* those interfaces and the peers kept for them: the owning service and that service's owner are kept
    /\ \A c \in CPs(A, Annotated(A, d) \cup Stitch(A)) \cup
                 UNION {UNION {Nbrs(A, l, "connects", "ConnectionPoint") : l \in Nbrs(A, c0, "connects", "Link")} :
                           c0 \in CPs(A, Annotated(A, d) \cup Stitch(A))} :
          \A s \in Nbrs(A, c, "connects", "NetworkService") :
             s \in DOMAIN P[d].n /\ Nbrs(A, s, "has", "NetworkNode") \cup Nbrs(A, s, "has", "Component") \subseteq DOMAIN P[d].n
StitchEverywhere(A, P) == \A d \in DOMAIN P : Stitch(A) \subseteq DOMAIN P[d].n
Clauses(A) == LET P == Partition(A) IN
    /\ DelegatedPresent(A, P) /\ NoForeignEntry(A, P) /\ SubModel(A, P) /\ InterfaceKeepsContext(A, P) /\ StitchEverywhere(A, P)
    /\ DOMAIN P = DelIds(A)
=============================================================================
