---------------------------- MODULE FimCBM ----------------------------
(***************************************************************************)
(* C14: the combined broker model (fim/graph/resources/neo4j_cbm.py        *)
(* merge_adm / unmerge_adm / _update_node_delegations, abc_cbm.py          *)
(* snapshot / rollback, abc_adm.py rewrite_delegations), executed on the   *)
(* in-memory shared store through the abstract graph interface.            *)
(*                                                                         *)
(* A delegation model (ADM):  [id, n : [nid -> [props, deleg]], e]         *)
(*    props : opaque token of the node's non-delegation properties         *)
(*    deleg : [type -> details token] for type in {"cap","lab"} (the       *)
(*            single entry a partitioned model carries per type)           *)
(*    e     : set of {nid, nid}                                            *)
(* The combined model:  [n : [nid -> [props, adms, deleg]], e]             *)
(*    adms  : set of ADM ids that contributed the node (provenance)        *)
(*    deleg : [type -> [adm id -> details]]                                *)
(* State S = [cbm, adm : [id -> ADM], snaps : [snapshot id -> cbm]]        *)
(***************************************************************************)
EXTENDS Naturals, Sequences, FiniteSets, TLC, SequencesExt, FiniteSetsExt

Fn(f) == [x \in DOMAIN f |-> f[x]]
Over(f, g) == [x \in (DOMAIN f) \cup (DOMAIN g) |-> IF x \in DOMAIN g THEN g[x] ELSE f[x]]
Without(f, D) == [x \in (DOMAIN f) \ D |-> f[x]]
QErr == "PropertyGraphQueryException"

EmptyCBM == [n |-> <<>>, e |-> {}]
Init0 == [cbm |-> EmptyCBM, adm |-> <<>>, snaps |-> <<>>, plug |-> FALSE]
R(S, out, res) == [st |-> S, out |-> out, res |-> res]
Ok(S) == R(S, "ok", [k |-> "none"])
Fail(S, c) == R(S, c, [k |-> "none"])

\* ---------------------------------------------------------------- merge
\* "only one side may speak for a resource": a shared node may carry delegations of one type from one model only
Conflict(C, A) == \E x \in (DOMAIN C.n) \cap (DOMAIN A.n) : \E t \in {"cap", "lab"} :
                      t \in DOMAIN A.n[x].deleg /\ t \in DOMAIN C.n[x].deleg /\ DOMAIN C.n[x].deleg[t] # {}
MergeInto(C, A) ==
    LET common == (DOMAIN C.n) \cap (DOMAIN A.n)
        fresh(x) == [props |-> A.n[x].props, adms |-> {A.id},
                     deleg |-> [t \in DOMAIN A.n[x].deleg |-> [i \in {A.id} |-> A.n[x].deleg[t]]]]
        joined(x) == [props |-> C.n[x].props,                      \* the element appears once; the first copy stays
                      adms |-> C.n[x].adms \cup {A.id},
                      deleg |-> [t \in (DOMAIN C.n[x].deleg) \cup (DOMAIN A.n[x].deleg) |->
                                   IF t \in DOMAIN C.n[x].deleg /\ DOMAIN C.n[x].deleg[t] # {} THEN C.n[x].deleg[t]
                                   ELSE IF t \in DOMAIN A.n[x].deleg THEN [i \in {A.id} |-> A.n[x].deleg[t]]
                                   ELSE C.n[x].deleg[t]]]
    IN  [n |-> [x \in (DOMAIN C.n) \cup (DOMAIN A.n) |->
                  IF x \in common THEN joined(x) ELSE IF x \in DOMAIN A.n THEN fresh(x) ELSE C.n[x]],
         e |-> C.e \cup A.e]

Merge(S, i) ==
    IF i \notin DOMAIN S.adm THEN Fail(S, "AssertionError")
    ELSE IF \E x \in DOMAIN S.cbm.n : i \in S.cbm.n[x].adms THEN Fail(S, "AlreadyMerged")     \* outside the interface
    ELSE IF Conflict(S.cbm, S.adm[i]) THEN Fail(S, QErr)
    ELSE Ok([S EXCEPT !.cbm = MergeInto(S.cbm, S.adm[i])])

\* ---------------------------------------------------------------- unmerge: remove exactly what only that model contributed
UnmergeNodes(C, i) ==
    LET gone == {x \in DOMAIN C.n : C.n[x].adms = {i}} IN
    [x \in (DOMAIN C.n) \ gone |-> [C.n[x] EXCEPT !.adms = @ \ {i}, !.deleg = [t \in DOMAIN @ |-> Without(@[t], {i})]]]
Unmerge(S, i) ==
    LET C == S.cbm
        rest == ((UNION {C.n[x].adms : x \in DOMAIN C.n}) \ {i}) \cap DOMAIN S.adm     \* (total also on observed states with foreign ids)
        \* a connection stays iff a model that remains merged holds it
    IN  Ok([S EXCEPT !.cbm = [n |-> UnmergeNodes(C, i),
                              e |-> {ed \in C.e : \E j \in rest : ed \in S.adm[j].e}]])
\* named deviation (known finding): connections carry no provenance in the implementation, so a connection between
\* two elements that both stay (each held by some other model) stays too, although only the unmerged model held it
UnmergeAsImplemented(S, i) ==
    LET C == S.cbm gone == {x \in DOMAIN C.n : C.n[x].adms = {i}} IN
    [n |-> UnmergeNodes(C, i), e |-> {ed \in C.e : ed \cap gone = {}}]

Snapshot(S, k) == Ok([S EXCEPT !.snaps = Over(@, [x \in {k} |-> S.cbm])])
Rollback(S, k) == IF k \notin DOMAIN S.snaps THEN Fail(S, "AssertionError")
                  ELSE Ok([S EXCEPT !.cbm = S.snaps[k], !.snaps = Without(@, {k})])
LoadFamily(S, fam) == Ok([S EXCEPT !.adm = [i \in DOMAIN fam |-> [id |-> i, n |-> [x \in DOMAIN fam[i].n |->
                                                   [props |-> fam[i].n[x].props, deleg |-> Fn(fam[i].n[x].deleg)]],
                                              e |-> {ToSet(ed) : ed \in ToSet(fam[i].e)}]]])

\* what one contributing model delegated on an element (get_delegations): its details, or nothing
GetDelegations(S, x, i, t) ==
    IF x \notin DOMAIN S.cbm.n THEN Fail(S, QErr)
    ELSE R(S, "ok", [k |-> "deleg", v |-> IF t \in DOMAIN S.cbm.n[x].deleg /\ i \in DOMAIN S.cbm.n[x].deleg[t]
                                          THEN S.cbm.n[x].deleg[t][i] ELSE "none"])
\* beyond the listed properties: the broker query model is produced by a registered plug-in, else it is a copy of the
\* combined model under a new id (PluggableRegistry is a process-wide registry: register / unregister / lookup)
GetBQM(S) == IF DOMAIN S.cbm.n = {} /\ ~S.plug THEN Fail(S, "Unmodelled")
             ELSE R(S, "ok", [k |-> "bqm", via |-> IF S.plug THEN "plugin" ELSE "copy", same |-> TRUE])

Apply(S, o) ==
    CASE o.op = "LoadFamily" -> LoadFamily(S, o.fam)
      [] o.op = "GetDelegations" -> GetDelegations(S, o.x, o.i, o.t)
      [] o.op = "Plug"       -> IF S.plug THEN Fail(S, "RuntimeError") ELSE Ok([S EXCEPT !.plug = TRUE])   \* one plug-in per kind
      [] o.op = "Unplug"     -> Ok([S EXCEPT !.plug = FALSE])
      [] o.op = "GetBQM"     -> GetBQM(S)
      [] o.op = "Merge"      -> Merge(S, o.i)
      [] o.op = "Unmerge"    -> Unmerge(S, o.i)
      [] o.op = "Snapshot"   -> Snapshot(S, o.k)
      [] o.op = "Rollback"   -> Rollback(S, o.k)

\* decoded content of the combined model: an empty delegation map reads as absent (every decoder of the library
\* reads '' and a missing property alike)
NormDeleg(d) == [t \in {u \in DOMAIN d : DOMAIN d[u] # {}} |-> d[t]]
NormCBM(C) == [n |-> [x \in DOMAIN C.n |-> [C.n[x] EXCEPT !.deleg = NormDeleg(@)]], e |-> C.e]

\* ---------------------------------------------------------------- laws (TLC, on the model)
\* provenance is exact; delegations are keyed by a contributing model
ProvenanceExact(S) ==
    \A x \in DOMAIN S.cbm.n :
        /\ S.cbm.n[x].adms # {}
        /\ \A i \in S.cbm.n[x].adms : i \in DOMAIN S.adm /\ x \in DOMAIN S.adm[i].n
        /\ \A t \in DOMAIN S.cbm.n[x].deleg : DOMAIN S.cbm.n[x].deleg[t] \subseteq S.cbm.n[x].adms
=============================================================================
