---------------------------- MODULE FimCapacity ----------------------------
(***************************************************************************)
(* Capacity vectors (fim/slivers/capacities_labels.py: Capacities,         *)
(* FreeCapacity) and the allocation ledger a broker keeps with them.       *)
(* A capacity is a total function Field -> Int (negative values are legal  *)
(* results of a subtraction).                                              *)
(* Apply(S, o) is total and deterministic; S is the ledger                 *)
(*      [total, allocated]                                                 *)
(* and is untouched by the pure arithmetic operations.                     *)
(***************************************************************************)
EXTENDS FimCapacityAlgebra, Sequences, TLC, SequencesExt, FiniteSetsExt

Cap(v) == [f \in Fields |-> IF f \in DOMAIN v THEN v[f] ELSE 0]      \* complete a partial record

\* ---------------------------------------------------------------- ledger
EmptyLedger == [total |-> Zero, allocated |-> Zero]
Free(S) == Sub(S.total, S.allocated)

R(S, out, res) == [st |-> S, out |-> out, res |-> res]

\* every pure operation reports its result AND the operands as read back afterwards (they must be untouched)
Pure(S, v, a, b) == R(S, "ok", [k |-> "val", v |-> v, a |-> a, b |-> b])

Apply(S, o) ==
    CASE o.op = "Add"       -> Pure(S, Add(Cap(o.a), Cap(o.b)), Cap(o.a), Cap(o.b))
      [] o.op = "Sub"       -> Pure(S, Sub(Cap(o.a), Cap(o.b)), Cap(o.a), Cap(o.b))
      [] o.op = "AddSub"    -> Pure(S, Sub(Add(Cap(o.a), Cap(o.b)), Cap(o.b)), Cap(o.a), Cap(o.b))   \* (a+b)-b
      \* printing is an observation: the operands print, and behave afterwards, exactly as before
      [] o.op = "ShowAdd"   -> Pure(S, Add(Cap(o.a), Cap(o.b)), Cap(o.a), Cap(o.b))
      [] o.op = "ShowSub"   -> Pure(S, Sub(Cap(o.a), Cap(o.b)), Cap(o.a), Cap(o.b))
      [] o.op = "ShowLt"    -> Pure(S, Le(Cap(o.a), Cap(o.b)), Cap(o.a), Cap(o.b))
      [] o.op = "ShowLedger" -> R(S, "ok", [k |-> "ledger", free |-> Free(S)])
      [] o.op = "Gt"        -> Pure(S, Ge(Cap(o.a), Cap(o.b)), Cap(o.a), Cap(o.b))
      [] o.op = "Lt"        -> Pure(S, Le(Cap(o.a), Cap(o.b)), Cap(o.a), Cap(o.b))
      [] o.op = "Eq"        -> Pure(S, Eq(Cap(o.a), Cap(o.b)), Cap(o.a), Cap(o.b))
      \* negative fields of b - a, by name (a fits in b exactly when the set is empty)
      [] o.op = "NegOfDiff" -> Pure(S, NegFields(Sub(Cap(o.b), Cap(o.a))), Cap(o.a), Cap(o.b))
      [] o.op = "Positive"  -> Pure(S, Positive(Sub(Cap(o.a), Cap(o.b)), ToSet(o.fields)), Cap(o.a), Cap(o.b))
      \* a result with negative fields is representable and printable: its encoding names exactly the non-zero fields
      [] o.op = "EncodeDiff" -> Pure(S, [f \in NonZero(Sub(Cap(o.a), Cap(o.b))) |-> Sub(Cap(o.a), Cap(o.b))[f]], Cap(o.a), Cap(o.b))
      [] o.op = "FreeOf"    -> Pure(S, Sub(Cap(o.a), Cap(o.b)), Cap(o.a), Cap(o.b))                   \* FreeCapacity(total=a, allocated=b)
      \* ledger (stateful)
      [] o.op = "SetTotal"  -> R([S EXCEPT !.total = Cap(o.a)], "ok", [k |-> "ledger", free |-> Sub(Cap(o.a), S.allocated)])
      [] o.op = "Allocate"  -> LET T == [S EXCEPT !.allocated = Add(@, Cap(o.a))] IN R(T, "ok", [k |-> "ledger", free |-> Free(T)])
      [] o.op = "Release"   -> LET T == [S EXCEPT !.allocated = Sub(@, Cap(o.a))] IN R(T, "ok", [k |-> "ledger", free |-> Free(T)])
      [] o.op = "CanFit"    -> R(S, "ok", [k |-> "val", v |-> Le(Cap(o.a), Free(S)), a |-> Cap(o.a), b |-> Cap(o.a)])

\* ---------------------------------------------------------------- laws: FimCapacityAlgebra!Laws, and for the ledger
LedgerInv(S) == LedgerLaw(S.total, S.allocated)
=============================================================================
