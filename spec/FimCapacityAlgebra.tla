---------------------------- MODULE FimCapacityAlgebra ----------------------------
(***************************************************************************)
(* The algebra of capacity vectors (total functions Field -> Int) and its  *)
(* laws, separated from FimCapacity so that it can be read by TLC (bounded *)
(* family, MC_FimCapacity) AND by Apalache (all integers,                  *)
(* APA_FimCapacity): one source of truth for both.  The @type comments are *)
(* Apalache's annotations; TLC ignores them.                               *)
(***************************************************************************)
EXTENDS Integers, FiniteSets

Fields == {"cpu", "core", "ram", "disk", "bw", "burst_size", "unit", "mtu"}
\* @type: Str -> Int;
Zero == [f \in Fields |-> 0]

\* @type: (Str -> Int, Str -> Int) => (Str -> Int);
Add(a, b) == [f \in Fields |-> a[f] + b[f]]
\* @type: (Str -> Int, Str -> Int) => (Str -> Int);
Sub(a, b) == [f \in Fields |-> a[f] - b[f]]
\* "a > b" in the code: a is at least b in every field (b fits within a)
\* @type: (Str -> Int, Str -> Int) => Bool;
Ge(a, b)  == \A f \in Fields : a[f] >= b[f]
\* "a < b": a fits within b
\* @type: (Str -> Int, Str -> Int) => Bool;
Le(a, b)  == \A f \in Fields : a[f] <= b[f]
\* @type: (Str -> Int, Str -> Int) => Bool;
Eq(a, b)  == \A f \in Fields : a[f] = b[f]
\* @type: (Str -> Int) => Set(Str);
NegFields(a) == {f \in Fields : a[f] < 0}
\* @type: (Str -> Int, Set(Str)) => Bool;
Positive(a, fs) == \A f \in fs : a[f] > 0
\* @type: (Str -> Int) => Set(Str);
NonZero(a) == {f \in Fields : a[f] # 0}

\* ---------------------------------------------------------------- algebraic laws (C15)
Laws(a, b, c) ==
    /\ Sub(Add(a, b), b) = a
    /\ Add(a, b) = Add(b, a)
    /\ Add(Add(a, b), c) = Add(a, Add(b, c))
    /\ (Le(a, b) <=> NegFields(Sub(b, a)) = {})
    /\ (Ge(a, b) <=> Le(b, a))
    /\ Eq(a, a) /\ (Eq(a, b) <=> Eq(b, a)) /\ (Eq(a, b) <=> a = b)
    /\ Add(Sub(a, b), b) = a                       \* free + allocated = total
    /\ (Le(a, b) /\ Le(b, c) => Le(a, c))
\* the ledger a broker keeps: free = total - allocated, and free + allocated = total
FreeOf(total, allocated) == Sub(total, allocated)
LedgerLaw(total, allocated) == Add(FreeOf(total, allocated), allocated) = total
=============================================================================
