---------------------------- MODULE FimCatalog ----------------------------
(***************************************************************************)
(* C18: instance sizing (fim/slivers/instance_catalog.py) and component    *)
(* generation (fim/slivers/component_catalog.py).  The catalogues are DATA *)
(* read by TLC from the repository's own JSON files, so data edits are     *)
(* followed and only the ALGORITHMS are judged.                            *)
(***************************************************************************)
EXTENDS Integers, Sequences, FiniteSets, TLC, SequencesExt, FiniteSetsExt, Json, IOUtils

\* name -> [core, ram, disk]
Sizes == JsonDeserialize(IOEnv.FIM_INSTANCE_SIZES)
Names == DOMAIN Sizes
\* list of entries, interfaces as an ordered list of [name, speed] (re-formatted by the harness, content untouched)
Components == JsonDeserialize(IOEnv.FIM_COMPONENT_CATALOG).entries

Dims == {"core", "ram", "disk"}
Satisfies(n, req) == \A d \in Dims : Sizes[n][d] >= req[d]
LeqAll(m, n) == \A d \in Dims : Sizes[m][d] <= Sizes[n][d]
Strictly(m, n) == LeqAll(m, n) /\ \E d \in Dims : Sizes[m][d] < Sizes[n][d]
\* the size every other size fits into ("the largest")
Largest == {n \in Names : \A m \in Names : LeqAll(m, n)}

\* is `n` an admissible answer for request `req` ?
Admissible(n, req) ==
    IF \E m \in Names : Satisfies(m, req)
    THEN /\ n \in Names /\ Satisfies(n, req)
         /\ ~\E m \in Names : Satisfies(m, req) /\ Strictly(m, n)      \* sufficient and minimal
    ELSE n \in Largest

\* the name says what the capacities are
NameOf(c) == "fabric.c" \o ToString(c.core) \o ".m" \o ToString(c.ram) \o ".d" \o ToString(c.disk)
NamesAgree == \A n \in Names : NameOf(Sizes[n]) = n

\* ---------------------------------------------------------------- components
\* args: idx (catalogue entry), via ("model_type" | "type_model" | "also_model"), name, parent ("" = none),
\*       ids (sequence of interface ids or <<>> = library-generated), nsid ("" = generated),
\*       labels: "none" | "scalar" | "list2" | "list3"  (one Labels object per interface; bdf scalar or a list of k)
NsSuffix(e) == IF e.Type = "FPGA" THEN "-l2p4" ELSE "-l2ovs"
NsType(e)   == IF e.Type = "FPGA" THEN "P4" ELSE "OVS"
IfType(e)   == IF e.Type \in {"SmartNIC", "FPGA"} THEN "DedicatedPort" ELSE IF e.Type = "SharedNIC" THEN "SharedPort" ELSE "none"
Units(lab)  == CASE lab = "list2" -> 2 [] lab = "list3" -> 3 [] OTHER -> 1

NoNs == [name |-> "-", type |-> "-", layer |-> "-", id |-> "-", ifs |-> <<>>]     \* component without ports
ExpectedComponent(a) ==
    LET e == Components[a.idx]
        base == [name |-> a.name, model |-> e.Model, type |-> e.Type, details |-> e.Details]
    IN  IF Len(e.Interfaces) = 0 THEN [comp |-> base, ns |-> NoNs]
        ELSE [comp |-> base,
              ns |-> [name |-> (IF a.parent = "" THEN "" ELSE a.parent \o "-") \o a.name \o NsSuffix(e),
                      type |-> NsType(e), layer |-> "L2",
                      id |-> IF a.nsid = "" THEN "generated" ELSE a.nsid,
                      ifs |-> [i \in 1..Len(e.Interfaces) |->
                                 [name |-> a.name \o "-" \o e.Interfaces[i][1],
                                  type |-> IfType(e),
                                  id |-> IF a.ids = <<>> THEN "generated" ELSE a.ids[i],
                                  unit |-> Units(a.labels),
                                  bw |-> IF e.Type = "SharedNIC" THEN 0 ELSE e.Interfaces[i][2],
                                  \* which caller-supplied label object landed here (its index), "-" when none were given
                                  labidx |-> IF a.labels = "none" THEN 0 ELSE i,
                                  local_name |-> IF a.labels \in {"list2", "list3"}
                                                 THEN [k \in 1..Units(a.labels) |-> e.Interfaces[i][1]]
                                                 ELSE <<e.Interfaces[i][1]>>]]]]

\* the combined type/model enumeration lists exactly the catalogue entries, in order
Massage(s) == s     \* the character replacement is done by the recorder's read-back; names are compared after it
ExpectedEnum == [i \in 1..Len(Components) |-> [type |-> Components[i].Type, model |-> Components[i].Model]]

R(out, res) == [st |-> "none", out |-> out, res |-> res]
Apply(S, o) ==
    CASE o.op = "MapInstance"   -> R("ok", [k |-> "admissible", req |-> [core |-> o.core, ram |-> o.ram, disk |-> o.disk]])
      [] o.op = "InstanceCaps"  -> R("ok", [k |-> "caps", known |-> o.name \in Names,
                                                    v |-> IF o.name \in Names THEN Sizes[o.name] ELSE [core |-> 0, ram |-> 0, disk |-> 0]])
      [] o.op = "ListInstances" -> R("ok", [k |-> "val", v |-> Names])
      [] o.op = "GenComponent"  -> IF o.via = "unknown" THEN R("CatalogException", [k |-> "none"])
                                   ELSE IF o.ids # <<>> /\ Len(o.ids) # Len(Components[o.idx].Interfaces) /\ Len(Components[o.idx].Interfaces) > 0
                                        THEN R("RuntimeError", [k |-> "none"])
                                   ELSE R("ok", [k |-> "val", v |-> ExpectedComponent(o)])
      [] o.op = "ModelTypeEnum" -> R("ok", [k |-> "val", v |-> ExpectedEnum])
=============================================================================
