---------------------------- MODULE FimCodec ----------------------------
(***************************************************************************)
(* C03: attribute value codecs (fim/slivers/capacities_labels.py JSONField *)
(* family, tags.py, json_data.py, gateway.py, path_info.py,                *)
(* maintenance_mode.py, fim/graph/typed_tuples.py).                        *)
(*                                                                         *)
(* A structured value is a total function field -> token; tokens:          *)
(*   "unset" | "i:<n>" | "f:<x>" | "b:true|false" | "s:<class>" |          *)
(*   "[t1,t2]" (list form).                                                *)
(* The encoded text is observed through its JSON dictionary (read back by  *)
(* the recorder with the plain json module).                               *)
(* State S = the maintenance record [entries, final] (the only stateful    *)
(* value); everything else is a pure function of its arguments.            *)
(***************************************************************************)
EXTENDS Naturals, Sequences, FiniteSets, TLC, SequencesExt, FiniteSetsExt

Fn(f) == [x \in DOMAIN f |-> f[x]]
Over(f, g) == [x \in (DOMAIN f) \cup (DOMAIN g) |-> IF x \in DOMAIN g THEN g[x] ELSE f[x]]
Without(f, D) == [x \in (DOMAIN f) \ D |-> f[x]]

CapFields == {"cpu", "core", "ram", "disk", "bw", "burst_size", "unit", "mtu"}
LabelFields == {"bdf", "mac", "ipv4", "ipv4_range", "ipv4_subnet", "ipv6", "ipv6_range", "ipv6_subnet", "asn", "vlan",
                "vlan_range", "inner_vlan", "instance", "instance_parent", "local_name", "local_type", "device_name",
                "bgp_key", "account_id", "region", "usb_id", "numa"}
Schema ==
    [Capacities      |-> [f \in CapFields |-> "int"],
     CapacityHints   |-> [instance_type |-> "str"],
     Labels          |-> [f \in LabelFields |-> "strlist"],
     ReservationInfo |-> [f \in {"reservation_id", "reservation_state", "error_message"} |-> "strlist"],
     StructuralInfo  |-> [f \in {"sub_graph_id", "parent_graph_id", "adm_graph_ids"} |-> "strlist"],
     Location        |-> [postal |-> "str", lat |-> "float", lon |-> "float"],
     Flags           |-> [f \in {"auto_config", "auto_mount", "ipv4_management", "ptp"} |-> "bool"]]
Classes == DOMAIN Schema
Default(kind) == CASE kind = "int" -> "i:0" [] kind = "bool" -> "b:false" [] OTHER -> "unset"
Obj(cls, asg) == [f \in DOMAIN Schema[cls] |-> IF f \in DOMAIN asg THEN asg[f] ELSE Default(Schema[cls][f])]
IsSet(cls, f, v) == v # Default(Schema[cls][f])
\* Flags always writes all four booleans
Enc(cls, o) == [f \in {g \in DOMAIN o : cls = "Flags" \/ IsSet(cls, g, o[g])} |-> o[f]]
Dec(cls, d) == Obj(cls, [f \in (DOMAIN d) \cap DOMAIN Schema[cls] |-> d[f]])

R(S, out, res) == [st |-> S, out |-> out, res |-> res]
NoneR == [k |-> "none"]

\* encode -> decode -> encode
RoundTrip(cls, asg) ==
    LET o == Obj(cls, asg) e == Enc(cls, o) IN
    [k |-> "rt", enc |-> e, empty |-> e = <<>>,
     absent |-> e = <<>>,                               \* "nothing set" is empty text and reads back as absent
     dec |-> IF e = <<>> THEN Obj(cls, <<>>) ELSE Dec(cls, e),
     same_text |-> TRUE]
\* named deviation (known finding): the generic encoder drops every field whose value == 0, so a float 0.0
\* (Location.lat / lon) is treated as unset
EncAsImplemented(cls, o) == [f \in {g \in DOMAIN Enc(cls, o) : o[g] # "f:0.0"} |-> o[f]]
RoundTripAsImplemented(cls, asg) ==
    LET o == Obj(cls, asg) e == EncAsImplemented(cls, o) IN
    [k |-> "rt", enc |-> e, empty |-> e = <<>>, absent |-> e = <<>>,
     dec |-> IF e = <<>> THEN Obj(cls, <<>>) ELSE Dec(cls, e), same_text |-> TRUE]

\* copy-with-changes: a new value, the original untouched
Update(cls, asg, kw) == [k |-> "upd", new |-> Obj(cls, Over(asg, kw)), orig |-> Obj(cls, asg)]
\* decoding a text that carries an extra unknown key: the known fields are read as if it was not there
DecodeExtra(cls, asg) == [k |-> "dec", dec |-> Dec(cls, Enc(cls, Obj(cls, asg)))]

\* ---------------------------------------------------------------- maintenance record (two-state machine)
EmptyMaint == [entries |-> <<>>, final |-> FALSE]
MErr == "MaintenanceModeException"
MaintApply(S, o) ==
    CASE o.op = "MNew"      -> R(EmptyMaint, "ok", NoneR)
      [] o.op = "MAdd"      -> IF S.final THEN R(S, MErr, NoneR)
                               ELSE R([S EXCEPT !.entries = Over(@, [n \in {o.name} |-> o.state])], "ok", NoneR)
      [] o.op = "MRem"      -> IF S.final THEN R(S, MErr, NoneR)
                               ELSE IF o.name \notin DOMAIN S.entries THEN R(S, "KeyError", NoneR)
                               ELSE R([S EXCEPT !.entries = Without(@, {o.name})], "ok", NoneR)
      [] o.op = "MPop"      -> IF S.final THEN R(S, MErr, NoneR)
                               ELSE IF o.name \notin DOMAIN S.entries THEN R(S, "KeyError", NoneR)
                               ELSE R([S EXCEPT !.entries = Without(@, {o.name})], "ok", [k |-> "val", v |-> S.entries[o.name]])
      [] o.op = "MFinalize" -> R([S EXCEPT !.final = TRUE], "ok", NoneR)
      \* serialisation and iteration only on a finalized record
      [] o.op = "MToJson"   -> IF ~S.final THEN R(S, MErr, NoneR) ELSE R(S, "ok", [k |-> "entries", v |-> S.entries])
      [] o.op = "MIter"     -> IF ~S.final THEN R(S, MErr, NoneR) ELSE R(S, "ok", [k |-> "entries", v |-> S.entries])
      \* decoding yields a finalized record with the same entries (encode must be possible, i.e. finalized)
      [] o.op = "MReload"   -> IF ~S.final THEN R(S, MErr, NoneR) ELSE R(S, "ok", [k |-> "entries", v |-> S.entries])
      \* copy(): same entries, NOT finalized; the original is untouched
      [] o.op = "MCopy"     -> R([S EXCEPT !.final = FALSE], "ok", [k |-> "entries", v |-> S.entries])
      \* a copy is edited (add, remove): the copy shows the edit, the record it was copied from does not
      [] o.op = "MCopyEdit" -> R(S, "ok", [k |-> "entries", v |-> Without(Over(S.entries, [n \in {o.add} |-> "Maint"]), {o.rem})])

\* ---------------------------------------------------------------- simple codecs: the decoded value equals the original
\* value classes are opaque tokens; the expected result is the identity (plus class-specific facts)
Simple(o) ==
    CASE o.cls = "Tags"      -> [k |-> "simple", dec |-> o.val, absent |-> FALSE, same_text |-> TRUE]
      [] o.cls \in {"MeasurementData", "UserData", "LayoutData"}
                             -> [k |-> "simple", dec |-> IF o.val = "none" THEN "emptyobj" ELSE o.val, absent |-> FALSE, same_text |-> TRUE]  \* only None means "no data"; 0, false, [], "" are data
      [] o.cls = "Gateway"   -> [k |-> "simple", dec |-> o.val, absent |-> FALSE, same_text |-> TRUE]
      [] o.cls \in {"PathInfo", "ERO"} -> [k |-> "simple", dec |-> o.val, absent |-> FALSE, same_text |-> TRUE]
      [] o.cls \in {"Label", "Capacity", "LocationTuple", "AllocationConstraint"}
                             -> [k |-> "simple", dec |-> o.val, absent |-> FALSE, same_text |-> TRUE]

Apply(S, o) ==
    CASE o.op = "RoundTrip"   -> R(S, "ok", RoundTrip(o.cls, Fn(o.asg)))
      [] o.op = "Update"      -> R(S, "ok", Update(o.cls, Fn(o.asg), Fn(o.kw)))
      [] o.op = "DecodeExtra" -> R(S, "ok", DecodeExtra(o.cls, Fn(o.asg)))
      [] o.op = "SimpleRoundTrip" -> R(S, "ok", Simple(o))
      [] OTHER -> MaintApply(S, o)

\* ---------------------------------------------------------------- laws (checked by TLC on the model)
CodecLaws(cls, asg) ==
    LET o == Obj(cls, asg) IN
    /\ (Enc(cls, o) # <<>> => Dec(cls, Enc(cls, o)) = o)
    /\ (Enc(cls, o) = <<>> => o = Obj(cls, <<>>))
    /\ (Enc(cls, o) # <<>> => Enc(cls, Dec(cls, Enc(cls, o))) = Enc(cls, o))
    /\ Dec(cls, Over(Enc(cls, o), [zz_unknown |-> "s:x"])) = Dec(cls, Enc(cls, o))
MaintInv(S) == TRUE
=============================================================================
