---------------------------- MODULE FimCypher ----------------------------
(***************************************************************************)
(* C19: statements handed to the database driver by the persistent backend *)
(* (fim/graph/neo4j_property_graph.py, resources/neo4j_cbm.py,             *)
(* slices/neo4j_asm.py).                                                   *)
(*                                                                         *)
(* The lexer is a deterministic state machine over the characters of the   *)
(* statement (LexStep), folded over the text; on the token sequence:       *)
(*   balanced brackets, terminated literals, no template left-overs        *)
(*   ("{{", "{name}"), no comment openers, every $parameter supplied,      *)
(*   every referenced variable bound.                                      *)
(* Data independence is a property of HISTORIES: the state of this         *)
(* specification maps an operation instance (operation + identifier        *)
(* arguments + result persona) to the SHAPE of its statements (tokens with *)
(* literal contents and numbers abstracted); running the same instance     *)
(* with other stored values must reproduce the same shape.                 *)
(***************************************************************************)
EXTENDS Naturals, Sequences, FiniteSets, TLC, SequencesExt, FiniteSetsExt

Fn(f) == [x \in DOMAIN f |-> f[x]]
Over(f, g) == [x \in (DOMAIN f) \cup (DOMAIN g) |-> IF x \in DOMAIN g THEN g[x] ELSE f[x]]
Digit == {"0", "1", "2", "3", "4", "5", "6", "7", "8", "9"}
Lower == {"a", "b", "c", "d", "e", "f", "g", "h", "i", "j", "k", "l", "m", "n", "o", "p", "q", "r", "s", "t", "u", "v", "w", "x", "y", "z"}
Upper == {"A", "B", "C", "D", "E", "F", "G", "H", "I", "J", "K", "L", "M", "N", "O", "P", "Q", "R", "S", "T", "U", "V", "W", "X", "Y", "Z"}
IdChar == Lower \cup Upper \cup Digit \cup {"_"}
Blank == {" ", "\n", "\t", "\r"}
Chars(s) == [i \in 1..Len(s) |-> SubSeq(s, i, i)]

\* ---------------------------------------------------------------- lexer: one step per character
\* state: [mode : "code" | "sq" | "dq" | "bt", esc : BOOLEAN, buf : STRING, toks : Seq(token)]
\* token: [t : "id" | "num" | "param" | "str" | "p" | "err", s : STRING]
Lex0 == [mode |-> "code", esc |-> FALSE, buf |-> "", toks |-> <<>>]
Word(buf) == IF SubSeq(buf, 1, 1) = "$" THEN [t |-> "param", s |-> SubSeq(buf, 2, Len(buf)), c |-> ""]
             ELSE IF \A i \in 1..Len(buf) : SubSeq(buf, i, i) \in Digit THEN [t |-> "num", s |-> buf, c |-> ""]
             ELSE [t |-> "id", s |-> buf, c |-> ""]
Flush(st) == IF st.buf = "" THEN st ELSE [st EXCEPT !.buf = "", !.toks = Append(@, Word(st.buf))]
Quote == [sq |-> "'", dq |-> "\"", bt |-> "`"]
LexStep(st, c) ==
    IF st.mode = "code" THEN
        IF c \in Blank THEN Flush(st)
        ELSE IF c = "'" THEN [Flush(st) EXCEPT !.mode = "sq"]
        ELSE IF c = "\"" THEN [Flush(st) EXCEPT !.mode = "dq"]
        ELSE IF c = "`" THEN [Flush(st) EXCEPT !.mode = "bt"]
        ELSE IF c \in IdChar \/ (c = "$" /\ st.buf = "") THEN [st EXCEPT !.buf = @ \o c]
        ELSE [Flush(st) EXCEPT !.toks = Append(@, [t |-> "p", s |-> c, c |-> ""])]
    \* inside a literal the DECODED content is collected in buf (an escaped character stands for itself)
    ELSE IF st.esc THEN [st EXCEPT !.esc = FALSE, !.buf = @ \o c]
    ELSE IF c = "\\" /\ st.mode # "bt" THEN [st EXCEPT !.esc = TRUE]
    ELSE IF c = Quote[st.mode] THEN [st EXCEPT !.mode = "code", !.buf = "",
                                               !.toks = Append(@, [t |-> IF st.mode = "bt" THEN "id" ELSE "str", s |-> st.mode, c |-> st.buf])]
    ELSE [st EXCEPT !.buf = @ \o c]
Lex(s) == LET g == FoldLeft(LexStep, Lex0, Chars(s)) f == IF g.mode = "code" THEN Flush(g) ELSE g IN
          IF f.mode # "code" THEN Append(f.toks, [t |-> "err", s |-> "unterminated", c |-> ""]) ELSE f.toks

\* ---------------------------------------------------------------- well-formedness on tokens
P(tk, c) == tk.t = "p" /\ tk.s = c
IsKwTok(tk, names) == tk.t = "id" /\ tk.s \in names
Open == {"(", "[", "{"}
Close == [x \in {")", "]", "}"} |-> CASE x = ")" -> "(" [] x = "]" -> "[" [] x = "}" -> "{"]
BalStep(stack, tk) ==                                \* stack = <<"!">> is the error sink
    IF stack = <<"!">> \/ tk.t # "p" THEN stack
    ELSE IF tk.s \in Open THEN Append(stack, tk.s)
    ELSE IF tk.s \in DOMAIN Close THEN
         IF stack # <<>> /\ stack[Len(stack)] = Close[tk.s] THEN SubSeq(stack, 1, Len(stack) - 1) ELSE <<"!">>
    ELSE stack
Balanced(toks) == FoldLeft(BalStep, <<>>, toks) = <<>>
Unterminated(toks) == \E i \in DOMAIN toks : toks[i].t = "err"
\* a Python format template that was not expanded leaves "{{" or "{name}" behind; neither is Cypher
TemplateLeftover(toks) ==
    \E i \in DOMAIN toks : /\ P(toks[i], "{") /\ i + 1 <= Len(toks)
                           /\ \/ P(toks[i + 1], "{")
                              \/ (i + 2 <= Len(toks) /\ toks[i + 1].t = "id" /\ P(toks[i + 2], "}"))
At(toks, i) == IF i \in DOMAIN toks THEN toks[i] ELSE [t |-> "none", s |-> "", c |-> ""]
\* a list / map separator with nothing on one side of it
DanglingSeparator(toks) ==
    \E i \in DOMAIN toks : /\ P(toks[i], ",")
                           /\ \/ i = 1 \/ i = Len(toks)
                              \/ (At(toks, i + 1).t = "p" /\ At(toks, i + 1).s \in {"}", ")", "]", ","})
                              \/ (At(toks, i - 1).t = "p" /\ At(toks, i - 1).s \in {"{", "(", "["})
\* a clause keyword with nothing after it (WHERE directly followed by RETURN, a trailing AND ...)
ClauseKw == {"where", "WHERE", "and", "AND", "or", "OR", "set", "SET", "match", "MATCH", "with", "WITH", "return", "RETURN", "unwind", "UNWIND"}
NextClauseKw == {"return", "RETURN", "with", "WITH", "match", "MATCH", "where", "WHERE", "union", "UNION", "and", "AND", "or", "OR"}
EmptyClause(toks) ==
    \E i \in DOMAIN toks : /\ IsKwTok(toks[i], ClauseKw)
                           /\ (i = Len(toks) \/ (IsKwTok(toks[i + 1], NextClauseKw) /\ ~(toks[i].s \in {"with", "WITH"} /\ FALSE)))
CommentOpener(toks) == \E i \in 1..(Len(toks) - 1) : (P(toks[i], "/") /\ (P(toks[i + 1], "/") \/ P(toks[i + 1], "*")))
ParamsUsed(toks) == {toks[i].s : i \in {j \in DOMAIN toks : toks[j].t = "param"}}

KwLower == {"match", "optional", "where", "with", "return", "unwind", "call", "and", "or", "not", "in", "as", "set", "delete", "detach",
            "remove", "yield", "union", "distinct", "create", "merge", "on", "is", "null", "xor", "order", "by", "limit", "skip", "true", "false"}
KwUpper == {"MATCH", "OPTIONAL", "WHERE", "WITH", "RETURN", "UNWIND", "CALL", "AND", "OR", "NOT", "IN", "AS", "SET", "DELETE", "DETACH",
            "REMOVE", "YIELD", "UNION", "DISTINCT", "CREATE", "MERGE", "ON", "IS", "NULL", "XOR", "ORDER", "BY", "LIMIT", "SKIP", "TRUE", "FALSE"}
Kw == KwLower \cup KwUpper
IsKw(tk, names) == tk.t = "id" /\ tk.s \in names
IsVar(tk) == tk.t = "id" /\ tk.s \notin Kw
\* identifiers in binding position
YieldBound(toks) ==                                   \* YIELD a, b AS c ... up to the next keyword
    {toks[k].s : k \in {j \in DOMAIN toks : IsVar(toks[j]) /\ \E y \in 1..(j - 1) :
                           /\ IsKw(toks[y], {"yield", "YIELD"})
                           /\ \A m \in (y + 1)..(j - 1) : IsVar(toks[m]) \/ P(toks[m], ",") \/ IsKw(toks[m], {"as", "AS"})}}
Bound(toks) ==
    {toks[k].s : k \in {j \in DOMAIN toks : IsVar(toks[j]) /\
        \/ (P(At(toks, j - 1), "(") /\ ~IsVar(At(toks, j - 2)))                       \* (n:Label ...) node pattern
        \/ (P(At(toks, j - 1), "[") /\ (P(At(toks, j + 1), ":") \/ P(At(toks, j + 1), "]") \/ P(At(toks, j + 1), "*")
                                        \/ IsKw(At(toks, j + 1), {"in", "IN"})))      \* [r:REL] or [x IN ...]
        \/ IsKw(At(toks, j - 1), {"as", "AS"})                                        \* ... AS x
        \/ (IsKw(At(toks, j + 1), {"in", "IN"}) /\ ~P(At(toks, j - 1), "."))         \* all(x IN list WHERE ...)
        \/ P(At(toks, j + 1), "=") /\ (P(At(toks, j + 2), "(") \/ At(toks, j + 2).t = "id")}}   \* p = (..) / p=shortestPath(..)
    \cup YieldBound(toks)
\* identifiers in referencing position (a deliberately small, unambiguous subset)
IsFunctionChain(toks, j) ==                          \* a.b.c( : namespaced function, not a property access
    \E e \in j..Len(toks) : /\ P(At(toks, e + 1), "(") /\ toks[e].t = "id"
                            /\ \A m \in j..(e - 1) : (toks[m].t = "id" \/ P(toks[m], "."))
Referenced(toks) ==
    {toks[k].s : k \in {j \in DOMAIN toks : IsVar(toks[j]) /\
        \/ (P(At(toks, j + 1), ".") /\ At(toks, j + 2).t = "id" /\ ~P(At(toks, j - 1), ".") /\ ~IsFunctionChain(toks, j))   \* x.Prop
        \/ (P(At(toks, j - 1), "(") /\ IsVar(At(toks, j - 2)) /\ P(At(toks, j + 1), ")"))}}                                  \* f(x)
Unbound(toks) == Referenced(toks) \ Bound(toks)

\* a literal whose decoded content is itself a statement (the inner query handed to an APOC procedure)
IsStmt(x) == Len(x) > 6 /\ SubSeq(x, 1, 5) \in {"match", "MATCH", "Match"}
NestedStmts(toks) == [i \in {j \in DOMAIN toks : toks[j].t = "str" /\ IsStmt(toks[j].c)} |-> toks[i].c]
DefectFlat(text, params) ==
    LET toks == Lex(text) IN
    IF Unterminated(toks) THEN "unterminated literal"
    ELSE IF ~Balanced(toks) THEN "unbalanced brackets"
    ELSE IF TemplateLeftover(toks) THEN "unexpanded template fragment"
    ELSE IF CommentOpener(toks) THEN "comment opener in statement"
    ELSE IF DanglingSeparator(toks) THEN "dangling separator"
    ELSE IF EmptyClause(toks) THEN "empty clause"
    ELSE IF ~(ParamsUsed(toks) \subseteq params) THEN "parameter named but not supplied"
    ELSE IF Unbound(toks) # {} THEN "variable referenced but never bound"
    ELSE ""
Defect(text, params) ==
    LET d == DefectFlat(text, params) n == NestedStmts(Lex(text)) IN
    IF d # "" THEN d
    ELSE IF \E i \in DOMAIN n : DefectFlat(n[i], params) # "" THEN "nested statement: " \o DefectFlat(n[CHOOSE i \in DOMAIN n : DefectFlat(n[i], params) # ""], params)
    ELSE ""
ShapeFlat(text) == LET toks == Lex(text) IN
    [i \in DOMAIN toks |-> IF toks[i].t \in {"str", "num"} THEN [t |-> toks[i].t, s |-> "", c |-> ""] ELSE toks[i]]
Shape(text) == LET n == NestedStmts(Lex(text)) IN [outer |-> ShapeFlat(text), nested |-> [i \in DOMAIN n |-> ShapeFlat(n[i])]]

\* ---------------------------------------------------------------- history: one shape per operation instance
Empty == [shape |-> <<>>]
\* line: [key, stmts : Seq([q, params])]
Apply(S, line) ==
    LET shapes == [i \in DOMAIN line.stmts |-> Shape(line.stmts[i].q)] IN
    IF line.key \in DOMAIN S.shape THEN [st |-> S, same |-> S.shape[line.key] = shapes]
    ELSE [st |-> [S EXCEPT !.shape = Over(@, [k \in {line.key} |-> shapes])], same |-> TRUE]

\* ---------------------------------------------------------------- reference notions used by the model checker
\* a value placed between single quotes with backslash and quote escaped
Esc(v) == LET cs == Chars(v) IN FoldLeft(LAMBDA acc, c : acc \o (IF c \in {"'", "\\"} THEN "\\" \o c ELSE c), "", cs)
Embeds(pre, lit, post) == pre \o "'" \o lit \o "'" \o post
=============================================================================
