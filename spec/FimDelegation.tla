---------------------------- MODULE FimDelegation ----------------------------
(***************************************************************************)
(* C12: delegations on a model element and pools across elements           *)
(* (fim/slivers/delegations.py).                                           *)
(*                                                                         *)
(* A delegation set of one type (CAPACITY / LABEL) on one element:         *)
(*      [delegation id -> [fmt, pool, det]]                                *)
(*   fmt in {"single", "definition", "reference"}; pool = pool name or ""  *)
(*   det = opaque details token ("" for a reference)                       *)
(* A pool family: [pool id -> [del, on, for, det]]                         *)
(*   del = delegation id, on = defining node, for = set of nodes it        *)
(*   applies to (never contains `on`), det = details token                 *)
(***************************************************************************)
EXTENDS Naturals, Sequences, FiniteSets, TLC, SequencesExt, FiniteSetsExt

DErr == "DelegationException"
Fn(f) == [x \in DOMAIN f |-> f[x]]
R(out, res) == [st |-> "none", out |-> out, res |-> res]

\* ---------------------------------------------------------------- encoding of a delegation set
\* what the JSON text carries per delegation id (read back by the recorder with the plain json module)
Wire(e) == CASE e.fmt = "single"     -> [pool_id |-> "_", det |-> e.det]
             [] e.fmt = "definition" -> [pool_id |-> e.pool, det |-> e.det]
             [] e.fmt = "reference"  -> [pool |-> e.pool]
WellFormed(e) == /\ e.fmt \in {"single", "definition", "reference"}
                 /\ (e.fmt = "reference" => e.det = "" /\ e.pool # "")
                 /\ (e.fmt = "definition" => e.det # "" /\ e.pool # "")
                 /\ (e.fmt = "single" => e.det # "")
\* round trip: encode, decode, encode again
RoundTrip(ds) ==
    IF \E d \in DOMAIN ds : ~WellFormed(ds[d]) THEN R(DErr, [k |-> "none"])        \* e.g. details on a reference
    ELSE R("ok", [k |-> "roundtrip", wire |-> [d \in DOMAIN ds |-> Wire(ds[d])],
                  decoded |-> [d \in DOMAIN ds |-> [fmt |-> ds[d].fmt, pool |-> IF ds[d].fmt = "single" THEN "" ELSE ds[d].pool,
                                                     det |-> ds[d].det]],
                  same_text |-> TRUE, empty |-> DOMAIN ds = {}])

\* ---------------------------------------------------------------- pools <-> per-node delegations
\* a family is representable iff no node takes part in two pools of one delegation id
\* (the per-node encoding is keyed by delegation id)
Members(p) == {p.on} \cup p.for
Representable(F) == \A a, b \in DOMAIN F : (a # b /\ F[a].del = F[b].del) => Members(F[a]) \cap Members(F[b]) = {}
ValidPool(p) == p.for # {} /\ p.on \notin p.for /\ p.det # "" /\ p.del # ""
NodesOf(F) == UNION {Members(F[a]) : a \in DOMAIN F}
NodeDelegations(F) ==
    [n \in NodesOf(F) |->
        [d \in {F[a].del : a \in {x \in DOMAIN F : n \in Members(F[x])}} |->
            LET a == CHOOSE x \in DOMAIN F : n \in Members(F[x]) /\ F[x].del = d
            IN  IF F[a].on = n THEN [fmt |-> "definition", pool |-> a, det |-> F[a].det]
                ELSE [fmt |-> "reference", pool |-> a, det |-> ""]]]
\* reading the per-node delegations back reconstructs the family
PoolsFromNodes(ND) ==
    LET pools == {ND[n][d].pool : <<n, d>> \in {x \in (DOMAIN ND) \X UNION {DOMAIN ND[m] : m \in DOMAIN ND} : x[2] \in DOMAIN ND[x[1]]}}
    IN  [a \in pools |->
            LET defs == {<<n, d>> \in (DOMAIN ND) \X UNION {DOMAIN ND[m] : m \in DOMAIN ND} :
                             d \in DOMAIN ND[n] /\ ND[n][d].pool = a /\ ND[n][d].fmt = "definition"}
                refs == {<<n, d>> \in (DOMAIN ND) \X UNION {DOMAIN ND[m] : m \in DOMAIN ND} :
                             d \in DOMAIN ND[n] /\ ND[n][d].pool = a /\ ND[n][d].fmt = "reference"}
                df == CHOOSE x \in defs : TRUE
            IN  [del |-> df[2], on |-> df[1], for |-> {x[1] : x \in refs}, det |-> ND[df[1]][df[2]].det]]
\* single: "none" | "first" | "last" - every node additionally carries a single-resource delegation of its own (id del0),
\* listed before / after its pool entries: reading the pools back ignores it wherever it is listed
WithSingle(ND, single) == IF single = "none" THEN ND
                          ELSE [n \in DOMAIN ND |-> [d \in (DOMAIN ND[n]) \cup {"del0"} |->
                                     IF d = "del0" THEN [fmt |-> "single", pool |-> "", det |-> "d2"] ELSE ND[n][d]]]
PoolsRoundTrip(F, single) ==
    IF \E a \in DOMAIN F : ~ValidPool(F[a]) THEN R("PoolException", [k |-> "none"])
    ELSE IF ~Representable(F) THEN R(DErr, [k |-> "none"])
    ELSE R("ok", [k |-> "pools", nodes |-> WithSingle(NodeDelegations(F), single), back |-> F])

\* pools and single-resource delegations written onto the elements of an aggregate model and read back from it:
\* an element cannot carry its own delegation and a pool entry at once (refused, nothing written)
OwnDel == "delS"
PoolsViaGraph(F, own) ==
    IF \E a \in DOMAIN F : ~ValidPool(F[a]) THEN R("PoolException", [k |-> "none"])
    ELSE IF ~Representable(F) THEN R(DErr, [k |-> "none"])
    ELSE IF own \cap NodesOf(F) # {} THEN R("PropertyGraphQueryException", [k |-> "none"])
    ELSE LET ND == NodeDelegations(F)
             all == [n \in NodesOf(F) \cup own |-> IF n \in own THEN [d \in {OwnDel} |-> [fmt |-> "single", pool |-> "", det |-> "d2"]] ELSE ND[n]]
             ids == UNION {DOMAIN all[n] : n \in DOMAIN all}
         IN  R("ok", [k |-> "pools", back |-> F, nodes |-> all,
                      \* regrouped by delegation id (one model per id): each holds exactly the elements with an entry of that id,
                      \* each carrying that entry only - and nothing under the OTHER delegation type
                      adms |-> [d \in ids |-> [n \in {x \in DOMAIN all : d \in DOMAIN all[x]} |-> all[n][d]]]])

Apply(S, o) ==
    CASE o.op = "DelegRoundTrip"  -> RoundTrip(Fn(o.ds))
      [] o.op = "PoolsViaGraph"   -> PoolsViaGraph([a \in DOMAIN o.fam |-> [del |-> o.fam[a].del, on |-> o.fam[a].on,
                                                                          for |-> ToSet(o.fam[a].for), det |-> o.fam[a].det]], ToSet(o.own))
      [] o.op = "AddDuplicateId"  -> R(DErr, [k |-> "none"])          \* two delegations with one id in one set
      [] o.op = "DetailsOnReference" -> R(DErr, [k |-> "none"])
      [] o.op = "MixedType"       -> R(DErr, [k |-> "none"])          \* label details on a capacity delegation / vice versa
      [] o.op = "DecodeMixedText" -> R("rejected", [k |-> "none"])    \* capacity text decoded as labels / vice versa
      [] o.op = "PoolsRoundTrip"  -> PoolsRoundTrip([a \in DOMAIN o.fam |-> [del |-> o.fam[a].del, on |-> o.fam[a].on,
                                                                          for |-> ToSet(o.fam[a].for), det |-> o.fam[a].det]],
                                                    IF "single" \in DOMAIN o THEN o.single ELSE "none")

\* design-level law (checked by TLC on every representable family): pools -> nodes -> pools = identity
LawHolds(F) == (Representable(F) /\ \A a \in DOMAIN F : ValidPool(F[a])) => PoolsFromNodes(NodeDelegations(F)) = F
=============================================================================
