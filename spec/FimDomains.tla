---------------------------- MODULE FimDomains ----------------------------
(***************************************************************************)
(* C16: the documented value domains of labels, tags, element names, boot  *)
(* scripts and opaque JSON blobs (fim/slivers/capacities_labels.py         *)
(* Labels.VALIDATORS / LAMBDA_VALIDATORS, tags.py, base_sliver.py          *)
(* NAME_REGEX per class, json_data.py MAX_SIZE), written as character-     *)
(* level recognisers, and the entry points through which a value can       *)
(* arrive (constructor, copy-with-changes, decoding from text, model-      *)
(* element assignment; scalar or list form).                               *)
(*                                                                         *)
(* State S = [lab : field -> [form, items], tags : Seq(STRING),            *)
(*            name : STRING, boot : Nat (length), blob : [cls, len]]       *)
(* is what is stored in the object / element under test.  The safety       *)
(* property is Stored(S): everything stored lies in its domain.            *)
(***************************************************************************)
EXTENDS Naturals, Sequences, FiniteSets, TLC, SequencesExt, FiniteSetsExt

Fn(f) == [x \in DOMAIN f |-> f[x]]
Over(f, g) == [x \in (DOMAIN f) \cup (DOMAIN g) |-> IF x \in DOMAIN g THEN g[x] ELSE f[x]]

\* ---------------------------------------------------------------- characters
Digit == {"0", "1", "2", "3", "4", "5", "6", "7", "8", "9"}
HexLower == Digit \cup {"a", "b", "c", "d", "e", "f"}
Hex == HexLower \cup {"A", "B", "C", "D", "E", "F"}
Lower == {"a", "b", "c", "d", "e", "f", "g", "h", "i", "j", "k", "l", "m", "n", "o", "p", "q", "r", "s", "t", "u", "v", "w", "x", "y", "z"}
Upper == {"A", "B", "C", "D", "E", "F", "G", "H", "I", "J", "K", "L", "M", "N", "O", "P", "Q", "R", "S", "T", "U", "V", "W", "X", "Y", "Z"}
Word == Lower \cup Upper \cup Digit \cup {"_"}          \* ASCII "regular characters"; other alphabets are outside the candidate grammar
Ch(s, i) == SubSeq(s, i, i)
AllIn(s, C) == \A i \in 1..Len(s) : Ch(s, i) \in C
IsDec(s, lo, hi) == Len(s) \in lo..hi /\ AllIn(s, Digit)
IsHex(s, lo, hi) == Len(s) \in lo..hi /\ AllIn(s, Hex)
DigitVal(c) == CHOOSE n \in 0..9 : <<"0", "1", "2", "3", "4", "5", "6", "7", "8", "9">>[n + 1] = c
RECURSIVE DecVal(_)
DecVal(s) == IF s = "" THEN 0 ELSE 10 * DecVal(SubSeq(s, 1, Len(s) - 1)) + DigitVal(Ch(s, Len(s)))    \* at most 9 digits
RECURSIVE StripZeros(_)
StripZeros(s) == IF Len(s) > 1 /\ Ch(s, 1) = "0" THEN StripZeros(SubSeq(s, 2, Len(s))) ELSE s
RECURSIVE LexLE(_, _)
LexLE(a, b) == IF a = "" THEN TRUE ELSE IF DigitVal(Ch(a, 1)) # DigitVal(Ch(b, 1)) THEN DigitVal(Ch(a, 1)) < DigitVal(Ch(b, 1))
               ELSE LexLE(SubSeq(a, 2, Len(a)), SubSeq(b, 2, Len(b)))
\* decimal strings of any length, compared without leaving 32-bit arithmetic
DecLE(a, b) == LET x == StripZeros(a) y == StripZeros(b) IN Len(x) < Len(y) \/ (Len(x) = Len(y) /\ LexLE(x, y))
\* split at every occurrence of the one-character separator
Cuts(s, sep) == {i \in 1..Len(s) : Ch(s, i) = sep}
Split(s, sep) ==
    LET c == SetToSortSeq(Cuts(s, sep), <) n == Len(c) IN
    [k \in 1..(n + 1) |-> SubSeq(s, (IF k = 1 THEN 1 ELSE c[k - 1] + 1), (IF k = n + 1 THEN Len(s) ELSE c[k] - 1))]

\* ---------------------------------------------------------------- label fields
Vlan(s) == IsDec(s, 1, 4) /\ DecVal(s) <= 4096
Octet(s) == IsDec(s, 1, 3) /\ DecVal(s) <= 255
IPv4(s) == LET p == Split(s, ".") IN Len(p) = 4 /\ \A i \in 1..4 : Octet(p[i])
IPv6(s) == LET p == Split(s, ":") IN Len(p) \in 1..8 /\ \A i \in DOMAIN p : IsHex(p[i], 0, 4)      \* the published pattern: up to 8 groups of up to 4 hex digits
Pair(s, sep, A(_), B(_)) == LET p == Split(s, sep) IN Len(p) = 2 /\ A(p[1]) /\ B(p[2])
Prefix(s) == IsDec(s, 1, 2)
Validated == {"bdf", "mac", "ipv4", "ipv4_range", "ipv4_subnet", "ipv6", "ipv6_range", "ipv6_subnet", "asn", "vlan", "vlan_range",
              "inner_vlan", "bgp_key", "account_id", "region", "usb_id", "numa"}
Free == {"instance", "instance_parent", "local_name", "local_type", "device_name"}
LabelFields == Validated \cup Free
InDomain(f, s) ==
    CASE f \in {"vlan", "inner_vlan"} -> Vlan(s)
      [] f = "vlan_range" -> LET p == Split(s, "-") IN Len(p) = 2 /\ Vlan(p[1]) /\ Vlan(p[2]) /\ DecVal(p[1]) <= DecVal(p[2])
      [] f = "asn"   -> Len(s) >= 1 /\ AllIn(s, Digit) /\ ~DecLE(s, "0") /\ DecLE(s, "4294967295")
      [] f = "numa"  -> s \in {"-1", "0", "1", "2", "3", "4", "5", "6", "7"}
      [] f = "mac"   -> LET p == Split(s, ":") IN Len(p) = 6 /\ \A i \in 1..6 : IsHex(p[i], 2, 2)
      [] f = "bdf"   -> LET p == Split(s, ":") IN Len(p) = 3 /\ IsHex(p[1], 1, 4) /\ IsHex(p[2], 2, 2)
                                                  /\ Pair(p[3], ".", LAMBDA x : IsHex(x, 2, 2), LAMBDA x : IsHex(x, 1, 64))
      [] f = "usb_id" -> LET p == Split(s, ":") IN Len(p) = 2 /\ \A i \in 1..2 : Len(p[i]) = 4 /\ AllIn(p[i], HexLower)
      [] f = "ipv4"  -> IPv4(s)
      [] f = "ipv4_range"  -> Pair(s, "-", IPv4, IPv4)
      [] f = "ipv4_subnet" -> Pair(s, "/", IPv4, Prefix)
      [] f = "ipv6"  -> IPv6(s)
      [] f = "ipv6_range"  -> Pair(s, "-", IPv6, IPv6)
      [] f = "ipv6_subnet" -> Pair(s, "/", IPv6, Prefix)
      [] f = "bgp_key"    -> Len(s) \in 6..150 /\ AllIn(s, Word \cup {"-", "+", "/", ".", ":"})
      [] f = "account_id" -> Len(s) \in 3..100 /\ AllIn(s, Word \cup {"-", "/", "."})
      [] f = "region"     -> Len(s) \in 3..100 /\ AllIn(s, Word \cup {"-", "."})
      [] OTHER -> TRUE
TagOK(s) == Len(s) \in 1..255 /\ AllIn(s, Word \cup {"-"})
NameChars == [node |-> Word \cup {"-", "."}, comp |-> Word \cup {"-", ".", " "}, svc |-> Word \cup {"-", "."},
              if |-> Word \cup {"-", "+", "/", ".", " ", ":"}, link |-> Word \cup {"-", "+", "/", ".", " ", ":"}]
NameOK(kind, s) == Len(s) \in (IF kind = "if" THEN 1 ELSE 2)..255 /\ AllIn(s, NameChars[kind])
BootOK(len) == len < 1024
BlobMax == [mf_data |-> 4096, user_data |-> 2048, layout_data |-> 1024]
BlobOK(cls, len, valid) == valid /\ len <= BlobMax[cls]

\* ---------------------------------------------------------------- state and entry points
Empty == [lab |-> <<>>, tags |-> <<>>, name |-> [kind |-> "", s |-> ""], boot |-> 0, blob |-> [cls |-> "", len |-> 0]]
R(S, out) == [st |-> S, out |-> out]
\* an assignment: field -> [form |-> "scalar" | "list", items |-> Seq(STRING)]
AsgOK(asg) == \A f \in DOMAIN asg : f \in LabelFields /\ \A i \in DOMAIN asg[f].items : InDomain(f, asg[f].items[i])
AbsAsg(a) == [f \in DOMAIN Fn(a) |-> [form |-> a[f].form, items |-> a[f].items]]
Apply(S, o) ==
    CASE o.op \in {"LNew", "LFromJson", "ElemSetLabels"} ->                  \* a whole new labels value
            IF AsgOK(AbsAsg(o.asg)) THEN R([S EXCEPT !.lab = AbsAsg(o.asg)], "ok") ELSE R(S, "rejected")
      [] o.op \in {"LUpdate", "ElemUpdateLabels"} ->                          \* copy-with-changes of what is stored
            IF AsgOK(AbsAsg(o.asg)) THEN R([S EXCEPT !.lab = Over(S.lab, AbsAsg(o.asg))], "ok") ELSE R(S, "rejected")
      [] o.op = "LRecode" -> R(S, "ok")                                       \* encode what is stored, decode it again
      [] o.op \in {"TNew", "TFromJson", "ElemSetTags"} ->
            IF \A i \in DOMAIN o.items : TagOK(o.items[i]) THEN R([S EXCEPT !.tags = o.items], "ok") ELSE R(S, "rejected")
      [] o.op \in {"SetName", "ElemCreate", "ElemSetName", "ElemRename"} ->
            IF NameOK(o.kind, o.name) THEN R([S EXCEPT !.name = [kind |-> o.kind, s |-> o.name]], "ok") ELSE R(S, "rejected")
      [] o.op \in {"SetBoot", "ElemSetBoot"} ->
            IF BootOK(o.len) THEN R([S EXCEPT !.boot = o.len], "ok") ELSE R(S, "rejected")
      [] o.op \in {"BlobText", "BlobObject", "ElemSetBlob"} ->
            IF BlobOK(o.cls, o.len, o.valid) THEN R([S EXCEPT !.blob = [cls |-> o.cls, len |-> o.len]], "ok") ELSE R(S, "rejected")
      [] o.op = "Reset" -> R(Empty, "ok")

\* ---------------------------------------------------------------- the safety property
Stored(S) ==
    /\ \A f \in DOMAIN S.lab : \A i \in DOMAIN S.lab[f].items : InDomain(f, S.lab[f].items[i])
    /\ \A i \in DOMAIN S.tags : TagOK(S.tags[i])
    /\ (S.name.kind # "" => NameOK(S.name.kind, S.name.s))
    /\ BootOK(S.boot)
    /\ (S.blob.cls # "" => S.blob.len <= BlobMax[S.blob.cls])
\* the documented examples of every validated field are members of its domain
Examples == [bdf |-> "0000:00:00.0", mac |-> "00:11:22:33:44:55", ipv4 |-> "192.168.1.1", ipv4_range |-> "192.168.1.1-192.168.1.10",
             ipv4_subnet |-> "192.168.1.0/24", ipv6 |-> "2001:0db8:85a3:0000:0000:8a2e:0370:7334",
             ipv6_range |-> "2001:0db8:85a3:0000:0000:8a2e:0370:7334-2001:0db8:85a3:0000:0000:8a2e:0370:8334",
             ipv6_subnet |-> "2001:0db8:85a3:0000:0000/48", asn |-> "12345", vlan |-> "1234", vlan_range |-> "100-200",
             inner_vlan |-> "1234", bgp_key |-> "0xzsEwC7xk6c1fK_h.xHyAdx", account_id |-> "3e2480b2-b4d5-3456-976a-7b0de65a1b62",
             region |-> "us-central1", usb_id |-> "1234:abcd", numa |-> "3"]
ExamplesInDomain == \A f \in DOMAIN Examples : InDomain(f, Examples[f])
=============================================================================
