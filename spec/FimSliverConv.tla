---------------------------- MODULE FimSliverConv ----------------------------
(***************************************************************************)
(* C02: slivers <-> model graph / deep dictionary / JSON, and the          *)
(* set / get / unset property interface of model elements                  *)
(* (fim/graph/abc_property_graph.py *_to_graph_properties_dict,            *)
(* *_from_graph_properties_dict, sliver_to_dict, build_deep_*,             *)
(* add_*_sliver; fim/slivers/json.py; fim/user/*.py set_property /         *)
(* get_property / unset_property).                                         *)
(*                                                                         *)
(* An element is [kind, type, props]; props : settable property -> value   *)
(* token ("v1" | "v2"; a property that is not set is not in the domain;    *)
(* the boolean stitch_node reads False = not set).  Elements are addressed *)
(* by their name path "n1/c1/s1/p1/u1" (containment = path prefix), so a   *)
(* sliver with all its nested components, services, interfaces and         *)
(* sub-interfaces is a function path -> element, and "comes back the same" *)
(* is equality of two such functions.                                      *)
(* State S = [g : path -> element] - the model graph.                      *)
(***************************************************************************)
EXTENDS Naturals, Sequences, FiniteSets, TLC, SequencesExt, FiniteSetsExt

Fn(f) == [x \in DOMAIN f |-> f[x]]
Over(f, g) == [x \in (DOMAIN f) \cup (DOMAIN g) |-> IF x \in DOMAIN g THEN g[x] ELSE f[x]]
Without(f, D) == [x \in (DOMAIN f) \ D |-> f[x]]
QErr == "PropertyGraphQueryException"

\* ---------------------------------------------------------------- the settable vocabulary, PINNED (compared with the
\* live sliver classes' setters at run time: a setter that appears or disappears is reported as "vocabulary changed")
Base == {"model", "capacities", "capacity_hints", "labels", "capacity_delegations", "label_delegations",
         "capacity_allocations", "label_allocations", "reservation_info", "structural_info", "details", "node_map",
         "stitch_node", "tags", "flags", "mf_data", "user_data", "layout_data", "boot_script"}
Vocab ==
    [node |-> Base \cup {"image_ref", "image_type", "management_ip", "allocation_constraints", "service_endpoint", "site",
                         "location", "maintenance_info"},
     comp |-> Base,
     svc  |-> Base \cup {"layer", "technology", "allocation_constraints", "ero", "path_info", "controller_url", "site",
                         "gateway", "mirror_port", "mirror_vlan", "mirror_direction"},
     if   |-> Base \cup {"peer_labels"},
     link |-> Base \cup {"layer", "technology"}]
Kinds == DOMAIN Vocab
ChildKinds == [node |-> {"comp", "svc"}, comp |-> {"svc"}, svc |-> {"if"}, if |-> {"if"}, link |-> {}]
\* "v0" is the falsy value of a property that has one (False, the empty string); a stitch_node of False IS "not set"
Tokens(p) == IF p = "stitch_node" THEN {"v0", "v1"} ELSE IF p \in {"details", "site"} THEN {"v0", "v1", "v2"} ELSE {"v1", "v2"}
Stored(asg) == [p \in {q \in DOMAIN asg : ~(q = "stitch_node" /\ asg[q] = "v0")} |-> asg[p]]
Cleared(asg) == {q \in DOMAIN asg : q = "stitch_node" /\ asg[q] = "v0"}

\* ---------------------------------------------------------------- paths
Slashes(p) == {i \in 1..Len(p) : SubSeq(p, i, i) = "/"}
Parent(p) == IF Slashes(p) = {} THEN "" ELSE SubSeq(p, 1, Max(Slashes(p)) - 1)
IsUnder(q, p) == Len(q) > Len(p) + 1 /\ SubSeq(q, 1, Len(p) + 1) = p \o "/"
Sub(g, p) == [q \in {x \in DOMAIN g : x = p \/ IsUnder(x, p)} |-> g[q]]

\* a sliver arrives as a sequence of entries [path, kind, type, props], root first
Els(sl) == [p \in {sl[i].path : i \in DOMAIN sl} |->
              LET e == sl[CHOOSE i \in DOMAIN sl : sl[i].path = p] IN [kind |-> e.kind, type |-> e.type, props |-> Fn(e.props)]]
WellFormed(sl) ==
    /\ Len(sl) >= 1
    /\ \A i, j \in DOMAIN sl : i # j => sl[i].path # sl[j].path
    /\ \A i \in DOMAIN sl : /\ sl[i].kind \in Kinds
                            /\ DOMAIN Fn(sl[i].props) \subseteq Vocab[sl[i].kind]
                            /\ \A p \in DOMAIN Fn(sl[i].props) : sl[i].props[p] \in Tokens(p)
                            /\ i > 1 => \E j \in 1..(i - 1) : sl[j].path = Parent(sl[i].path) /\ sl[i].kind \in ChildKinds[sl[j].kind]

Empty == [g |-> <<>>]
R(S, out, res) == [st |-> S, out |-> out, res |-> res]
NoneR == [k |-> "none"]
Ok(S) == R(S, "ok", NoneR)
Fail(S, c) == R(S, c, NoneR)
ValR(v) == [k |-> "val", v |-> v]
Read(S, path, p) == IF p \in DOMAIN S.g[path].props THEN S.g[path].props[p] ELSE "absent"

\* ---------------------------------------------------------------- writing a sliver into the graph, rebuilding it
Write(S, o) ==
    LET sl == o.sl root == sl[1] els == Els(sl) top == Parent(root.path) = "" IN
    IF ~WellFormed(sl) THEN Fail(S, "Unmodelled")
    ELSE IF root.kind \in {"node", "svc"} /\ top /\ root.path \in DOMAIN S.g /\ S.g[root.path].kind = root.kind
         THEN Fail(S, QErr)                                               \* names of nodes / slice-wide services are unique
    ELSE IF (DOMAIN els) \cap (DOMAIN S.g) # {} THEN Fail(S, "Unmodelled")
    ELSE IF ~top /\ (Parent(root.path) \notin DOMAIN S.g \/ root.kind \notin ChildKinds[S.g[Parent(root.path)].kind])
         THEN Fail(S, "Unmodelled")
    ELSE IF root.kind = "link" /\ \E i \in ToSet(o.ifs) : i \notin DOMAIN S.g THEN Fail(S, QErr)
    ELSE Ok([S EXCEPT !.g = Over(S.g, els)])
\* rebuilding from any element returns that element with everything nested in it
Rebuild(S, p) == IF p \notin DOMAIN S.g THEN Fail(S, QErr) ELSE R(S, "ok", [k |-> "sliver", el |-> Sub(S.g, p)])
\* deep dictionary / JSON and back: the same sliver, the original untouched
RoundTrip(S, o) == IF ~WellFormed(o.sl) THEN Fail(S, "Unmodelled") ELSE R(S, "ok", [k |-> "sliver", el |-> Els(o.sl)])

\* ---------------------------------------------------------------- model-element property interface
SetProps(S, path, asg) ==
    IF path \notin DOMAIN S.g THEN Fail(S, QErr)
    ELSE IF ~(DOMAIN asg \subseteq Vocab[S.g[path].kind]) THEN Fail(S, "AttributeError")
    ELSE Ok([S EXCEPT !.g[path].props = Over(Without(@, Cleared(asg)), Stored(asg))])
SetProp(S, path, p, v) ==
    LET r == SetProps(S, path, [x \in {p} |-> v]) IN IF r.out = "ok" THEN R(r.st, "ok", ValR(Read(r.st, path, p))) ELSE r
\* unsetting makes the property read as absent; unsetting what is not set is refused by the store
UnsetProp(S, path, p) ==
    IF path \notin DOMAIN S.g THEN Fail(S, QErr)
    ELSE IF p \notin DOMAIN S.g[path].props THEN Fail(S, QErr)
    ELSE R([S EXCEPT !.g[path].props = Without(@, {p})], "ok", ValR("absent"))
GetProp(S, path, p) ==
    IF path \notin DOMAIN S.g THEN Fail(S, QErr)
    ELSE IF p \notin Vocab[S.g[path].kind] THEN Fail(S, "AttributeError")
    ELSE R(S, "ok", ValR(Read(S, path, p)))

Apply(S, o) ==
    CASE o.op = "Write"     -> Write(S, o)
      [] o.op = "Rebuild"   -> Rebuild(S, o.path)
      [] o.op \in {"DictRT", "JsonRT"} -> RoundTrip(S, o)
      [] o.op = "SetProp"   -> SetProp(S, o.path, o.p, o.v)
      [] o.op = "SetProps"  -> SetProps(S, o.path, Fn(o.asg))
      [] o.op \in {"UnsetProp", "SetNone"} -> UnsetProp(S, o.path, o.p)
      [] o.op = "GetProp"   -> GetProp(S, o.path, o.p)
      [] o.op = "Vocab"     -> R(S, "ok", [k |-> "vocab", v |-> Vocab])

\* ---------------------------------------------------------------- named deviations (known findings) of the implementation
\* "img":      a node's image is stored as ONE graph property "<ref>,<type>" that is written only when both are set, so
\*             image_ref / image_type set on their own are lost, and unsetting image_ref removes image_type with it
\* "stitch":   every set_property / set_properties writes the fresh sliver's stitch_node = False over the stored one
\* "unmapped": stitch_node and image_type have no entry in the unset table: unsetting them silently does nothing
ImgNorm(kind, props) ==
    IF kind = "node" /\ ~({"image_ref", "image_type"} \subseteq DOMAIN props) THEN Without(props, {"image_ref", "image_type"}) ELSE props
ElsAsImpl(els, F) == [p \in DOMAIN els |-> IF "img" \in F THEN [els[p] EXCEPT !.props = ImgNorm(els[p].kind, @)] ELSE els[p]]
ApplyAsImpl(S, o, F) ==
    LET ref == Apply(S, o) IN
    IF ref.out = "Unmodelled" THEN ref
    ELSE IF o.op = "Write" /\ ref.out = "ok" THEN Ok([S EXCEPT !.g = Over(S.g, ElsAsImpl(Els(o.sl), F))])
    ELSE IF o.op \in {"DictRT", "JsonRT"} /\ ref.out = "ok" THEN R(S, "ok", [k |-> "sliver", el |-> ElsAsImpl(Els(o.sl), F)])
    ELSE IF o.op \in {"SetProp", "SetProps"} /\ ref.out = "ok" THEN
         LET asg == IF o.op = "SetProp" THEN [x \in {o.p} |-> o.v] ELSE Fn(o.asg)
             kind == S.g[o.path].kind
             wr  == IF "img" \in F THEN ImgNorm(kind, asg) ELSE asg
             old == S.g[o.path].props
             new == Over(IF "stitch" \in F /\ "stitch_node" \notin DOMAIN wr THEN Without(old, {"stitch_node"}) ELSE Without(old, Cleared(wr)), Stored(wr))
             S2 == [S EXCEPT !.g[o.path].props = new]
         IN  IF o.op = "SetProp" THEN R(S2, "ok", ValR(Read(S2, o.path, o.p))) ELSE Ok(S2)
    ELSE IF o.op \in {"UnsetProp", "SetNone"} /\ o.path \in DOMAIN S.g THEN
         IF "unmapped" \in F /\ o.p \in {"stitch_node", "image_type"} THEN R(S, "ok", ValR(Read(S, o.path, o.p)))
         ELSE IF "img" \in F /\ o.p = "image_ref" /\ ref.out = "ok"
              THEN R([S EXCEPT !.g[o.path].props = Without(@, {"image_ref", "image_type"})], "ok", ValR("absent"))
         ELSE ref
    ELSE ref
DevName(F) == IF F = {"img"} THEN "ImageRefAndTypeStoredAsOnePair"
              ELSE IF F = {"stitch"} THEN "SetPropertyResetsStitchNode"
              ELSE IF F = {"unmapped"} THEN "UnsetOfUnmappedPropertyIgnored"
              ELSE "Several"

\* ---------------------------------------------------------------- laws (checked by TLC on the model)
\* what is written is what is rebuilt, from the root and from every nested element; nothing else changes
WriteRebuildLaw(S, o) ==
    LET r == Write(S, o) IN
    r.out = "ok" =>
        /\ \A p \in DOMAIN Els(o.sl) : Rebuild(r.st, p).res.el = Sub(Els(o.sl), p)
        /\ \A p \in DOMAIN S.g : r.st.g[p] = S.g[p]
SetGetLaw(S, path, p, v) ==
    LET r == SetProp(S, path, p, v) IN
    r.out = "ok" =>
        /\ GetProp(r.st, path, p).res.v = (IF p = "stitch_node" /\ v = "v0" THEN "absent" ELSE v)
        /\ \A q \in DOMAIN S.g : \A x \in Vocab[S.g[q].kind] : (q # path \/ x # p) => Read(r.st, q, x) = Read(S, q, x)
        /\ LET u == UnsetProp(r.st, path, p) IN
              /\ (u.out = "ok" \/ (p = "stitch_node" /\ v = "v0")) /\ GetProp(u.st, path, p).res.v = "absent"
              /\ \A q \in DOMAIN S.g : \A x \in Vocab[S.g[q].kind] : (q # path \/ x # p) => Read(u.st, q, x) = Read(S, q, x)
=============================================================================
