---------------------------- MODULE FimSliverDiff ----------------------------
(***************************************************************************)
(* C17: comparison of two slivers (fim/slivers/network_node.py             *)
(* NodeSliver.diff, network_service.py NetworkServiceSliver.diff,          *)
(* interface_info.py InterfaceSliver.diff, base_sliver.py prop_diff).      *)
(*                                                                         *)
(* Abstract sliver trees                                                   *)
(*   node  = [p, comps : [name -> comp], svcs : [name -> [p]]]             *)
(*   comp  = [p, smart, ifs : [name -> iface]]   (a SmartNIC's service     *)
(*           with its ports; other components have no ports)               *)
(*   iface = [p, subs : [name -> [p]]]                                     *)
(*   p     = [labels, caps, ud]   opaque tokens ("" = not set)             *)
(* State S = [old, new]: `new` starts as a copy of `old` and is edited;    *)
(* observers compare the two in both directions.                           *)
(***************************************************************************)
EXTENDS Naturals, Sequences, FiniteSets, TLC, SequencesExt, FiniteSetsExt

Fn(f) == [x \in DOMAIN f |-> f[x]]
Upd(f, k, v)  == [x \in (DOMAIN f) \cup {k} |-> IF x = k THEN v ELSE f[x]]
Without(f, D) == [x \in (DOMAIN f) \ D |-> f[x]]
P0 == [labels |-> "", caps |-> "", ud |-> ""]
\* user data is compared by VALUE: "U1s" is the value U1 given as JSON text in another layout (compact, keys reordered)
UVal(t) == IF t = "U1s" THEN "U1" ELSE t

Flags(a, b) == {f \in {"LABELS", "CAPACITIES", "USER_DATA"} :
                  \/ (f = "LABELS" /\ a.labels # b.labels) \/ (f = "CAPACITIES" /\ a.caps # b.caps)
                  \/ (f = "USER_DATA" /\ UVal(a.ud) # UVal(b.ud))}
Added(a, b)   == (DOMAIN b) \ (DOMAIN a)
Removed(a, b) == (DOMAIN a) \ (DOMAIN b)
Common(a, b)  == (DOMAIN a) \cap (DOMAIN b)

\* interface vs interface: sub-interfaces added / removed / modified, own property flags
IfDiff(a, b) ==
    [self |-> Flags(a.p, b.p), added |-> Added(a.subs, b.subs), removed |-> Removed(a.subs, b.subs),
     modified |-> [s \in {x \in Common(a.subs, b.subs) : Flags(a.subs[x].p, b.subs[x].p) # {}} |-> Flags(a.subs[s].p, b.subs[s].p)]]
IfDiffEmpty(d) == d.self = {} /\ d.added = {} /\ d.removed = {} /\ DOMAIN d.modified = {}
\* a component's service vs the same service: ports added / removed / modified (a dedicated port is also modified
\* when its sub-interfaces differ)
IfFlags(a, b) == Flags(a.p, b.p) \cup (IF IfDiffEmpty(IfDiff(a, b)) THEN {} ELSE {"SUB_INTERFACES"})
SvcDiff(a, b) ==
    [added |-> Added(a.ifs, b.ifs), removed |-> Removed(a.ifs, b.ifs),
     modified |-> [i \in {x \in Common(a.ifs, b.ifs) : IfFlags(a.ifs[x], b.ifs[x]) # {}} |-> IfFlags(a.ifs[i], b.ifs[i])]]
SvcDiffEmpty(d) == d.added = {} /\ d.removed = {} /\ DOMAIN d.modified = {}
CompFlags(a, b) == Flags(a.p, b.p) \cup (IF a.smart /\ b.smart /\ ~SvcDiffEmpty(SvcDiff(a, b)) THEN {"SUB_INTERFACES"} ELSE {})
NodeDiff(a, b) ==
    [self |-> Flags(a.p, b.p),
     comps_added |-> Added(a.comps, b.comps), comps_removed |-> Removed(a.comps, b.comps),
     comps_modified |-> [c \in {x \in Common(a.comps, b.comps) : CompFlags(a.comps[x], b.comps[x]) # {}} |-> CompFlags(a.comps[c], b.comps[c])],
     svcs_added |-> Added(a.svcs, b.svcs), svcs_removed |-> Removed(a.svcs, b.svcs),
     svcs_modified |-> [s \in {x \in Common(a.svcs, b.svcs) : Flags(a.svcs[x].p, b.svcs[x].p) # {}} |-> Flags(a.svcs[s].p, b.svcs[s].p)]]
NodeDiffEmpty(d) == d.self = {} /\ d.comps_added = {} /\ d.comps_removed = {} /\ DOMAIN d.comps_modified = {}
                    /\ d.svcs_added = {} /\ d.svcs_removed = {} /\ DOMAIN d.svcs_modified = {}

\* ---------------------------------------------------------------- edits of `new`
R(S, out, res) == [st |-> S, out |-> out, res |-> res]
Ok(S) == R(S, "ok", [k |-> "none"])
SetP(p, which, v) == CASE which = "labels" -> [p EXCEPT !.labels = v] [] which = "caps" -> [p EXCEPT !.caps = v] [] which = "ud" -> [p EXCEPT !.ud = v]
Edit(S, o) ==
    LET N == S.new IN
    CASE o.op = "Start"     -> Ok([old |-> o.base, new |-> o.base])
      [] o.op = "AddComp"   -> IF o.name \in DOMAIN N.comps THEN Ok(S)
                               ELSE Ok([S EXCEPT !.new.comps = Upd(@, o.name, [p |-> P0, smart |-> o.smart,
                                           ifs |-> IF o.smart THEN [i \in {"p1", "p2"} |-> [p |-> P0, subs |-> <<>>]] ELSE <<>>])])
      [] o.op = "RemComp"   -> Ok([S EXCEPT !.new.comps = Without(@, {o.name})])
      [] o.op = "AddSvc"    -> Ok([S EXCEPT !.new.svcs = Upd(@, o.name, [p |-> P0])])
      [] o.op = "RemSvc"    -> Ok([S EXCEPT !.new.svcs = Without(@, {o.name})])
      [] o.op = "AddSub"    -> IF o.c \notin DOMAIN N.comps \/ o.i \notin DOMAIN N.comps[o.c].ifs THEN Ok(S)
                               ELSE Ok([S EXCEPT !.new.comps[o.c].ifs[o.i].subs = Upd(@, o.name, [p |-> P0])])
      [] o.op = "RemSub"    -> IF o.c \notin DOMAIN N.comps \/ o.i \notin DOMAIN N.comps[o.c].ifs THEN Ok(S)
                               ELSE Ok([S EXCEPT !.new.comps[o.c].ifs[o.i].subs = Without(@, {o.name})])
      [] o.op = "SetNode"   -> Ok([S EXCEPT !.new.p = SetP(@, o.which, o.v)])
      [] o.op = "SetComp"   -> IF o.c \notin DOMAIN N.comps THEN Ok(S) ELSE Ok([S EXCEPT !.new.comps[o.c].p = SetP(@, o.which, o.v)])
      [] o.op = "SetSvc"    -> IF o.s \notin DOMAIN N.svcs THEN Ok(S) ELSE Ok([S EXCEPT !.new.svcs[o.s].p = SetP(@, o.which, o.v)])
      [] o.op = "SetIf"     -> IF o.c \notin DOMAIN N.comps \/ o.i \notin DOMAIN N.comps[o.c].ifs THEN Ok(S)
                               ELSE Ok([S EXCEPT !.new.comps[o.c].ifs[o.i].p = SetP(@, o.which, o.v)])
      [] o.op = "SetSub"    -> IF o.c \notin DOMAIN N.comps \/ o.i \notin DOMAIN N.comps[o.c].ifs
                                  \/ o.name \notin DOMAIN N.comps[o.c].ifs[o.i].subs THEN Ok(S)
                               ELSE Ok([S EXCEPT !.new.comps[o.c].ifs[o.i].subs[o.name].p = SetP(@, o.which, o.v)])
      \* observers: both directions at once
      [] o.op = "DiffNode"  -> R(S, "ok", [k |-> "nodediff", fwd |-> NodeDiff(S.old, S.new), bwd |-> NodeDiff(S.new, S.old),
                                          fwd_none |-> NodeDiffEmpty(NodeDiff(S.old, S.new)), bwd_none |-> NodeDiffEmpty(NodeDiff(S.new, S.old))])
      [] o.op = "DiffCompService" ->
            IF o.c \notin DOMAIN S.old.comps \/ o.c \notin DOMAIN S.new.comps \/ ~S.old.comps[o.c].smart \/ ~S.new.comps[o.c].smart
            THEN R(S, "skip", [k |-> "none"])
            ELSE R(S, "ok", [k |-> "svcdiff", fwd |-> SvcDiff(S.old.comps[o.c], S.new.comps[o.c]), bwd |-> SvcDiff(S.new.comps[o.c], S.old.comps[o.c])])
      [] o.op = "DiffInterface" ->
            IF o.c \notin DOMAIN S.old.comps \/ o.c \notin DOMAIN S.new.comps \/ o.i \notin DOMAIN S.old.comps[o.c].ifs
               \/ o.i \notin DOMAIN S.new.comps[o.c].ifs THEN R(S, "skip", [k |-> "none"])
            ELSE R(S, "ok", [k |-> "ifdiff", fwd |-> IfDiff(S.old.comps[o.c].ifs[o.i], S.new.comps[o.c].ifs[o.i]),
                             bwd |-> IfDiff(S.new.comps[o.c].ifs[o.i], S.old.comps[o.c].ifs[o.i])])
Apply(S, o) == Edit(S, o)

\* ---------------------------------------------------------------- laws
\* slivers up to the layout of their user data
NormP(p) == [p EXCEPT !.ud = UVal(@)]
NormNode(n) == [p |-> NormP(n.p),
                comps |-> [c \in DOMAIN n.comps |-> [p |-> NormP(n.comps[c].p), smart |-> n.comps[c].smart,
                              ifs |-> [i \in DOMAIN n.comps[c].ifs |-> [p |-> NormP(n.comps[c].ifs[i].p),
                                         subs |-> [x \in DOMAIN n.comps[c].ifs[i].subs |-> [p |-> NormP(n.comps[c].ifs[i].subs[x].p)]]]]]],
                svcs |-> [x \in DOMAIN n.svcs |-> [p |-> NormP(n.svcs[x].p)]]]
Laws(S) ==
    /\ NodeDiffEmpty(NodeDiff(S.old, S.old))
    /\ NodeDiff(S.old, S.new).comps_added = NodeDiff(S.new, S.old).comps_removed
    /\ NodeDiff(S.old, S.new).svcs_added = NodeDiff(S.new, S.old).svcs_removed
    /\ DOMAIN NodeDiff(S.old, S.new).comps_modified = DOMAIN NodeDiff(S.new, S.old).comps_modified
    /\ (NormNode(S.old) = NormNode(S.new) <=> NodeDiffEmpty(NodeDiff(S.old, S.new)))
=============================================================================
