---------------------------- MODULE FimStore ----------------------------
(***************************************************************************)
(* Executable reference model of FIM's in-memory property-graph store      *)
(* (fim/graph/abc_property_graph.py docstrings, networkx_property_graph.py,*)
(* networkx_property_graph_disjoint.py, networkx_mixin.py).                *)
(*                                                                         *)
(* The store is ONE labelled graph: every node carries a graph id and a    *)
(* node id; "a graph" is the set of nodes with that graph id plus the      *)
(* edges among them.  Edges between nodes of different graphs can exist    *)
(* (node merging creates them; the combined-broker-model code relies on    *)
(* that, see FimCBM).                                                      *)
(*                                                                         *)
(* Every public operation is a total deterministic function                *)
(*      Apply(S, o) == [st |-> S', out |-> outcome, res |-> result]        *)
(* Failing calls have st = S.  The same operator is used by the model-     *)
(* checked next-state relation (MC_FimStore), the behaviour generator      *)
(* (Gen_FimStore.cfg) and the trace validator (Trace_FimStore).            *)
(***************************************************************************)
EXTENDS Naturals, Sequences, FiniteSets, TLC, SequencesExt, FiniteSetsExt

\* ------------------------------------------------------------------ basics
\* S.n : [<<gid,nid>> -> [cls, props]]      S.e : [{key,key} -> [cls, props]]
\* S.doc : the "clipboard": last serialised document, or NoDoc
\*   noid : node ids whose NodeID property has been removed from the text (a "tampered" document)
\*   stamp : graph id stamped on each of the document's nodes (differs from gid only after tampering)
NoDoc == [gid |-> "", n |-> <<>>, e |-> <<>>, ok |-> FALSE, noid |-> {}, stamp |-> <<>>]
EmptyStore == [n |-> <<>>, e |-> <<>>, doc |-> NoDoc]

Fn(f)          == [x \in DOMAIN f |-> f[x]]      \* normal form of a (possibly JSON-born) record
Upd(f, k, v)   == [x \in (DOMAIN f) \cup {k} |-> IF x = k THEN v ELSE f[x]]
Over(f, g)     == [x \in (DOMAIN f) \cup (DOMAIN g) |-> IF x \in DOMAIN g THEN g[x] ELSE f[x]]
Without(f, D)  == [x \in (DOMAIN f) \ D |-> f[x]]
Only(f, D)     == [x \in (DOMAIN f) \cap D |-> f[x]]

Keys(S)        == DOMAIN S.n
KeysOf(S, g)   == {k \in Keys(S) : k[1] = g}
Nids(S, g)     == {k[2] : k \in KeysOf(S, g)}
Has(S, g, n)   == <<g, n>> \in Keys(S)
Gids(S)        == {k[1] : k \in Keys(S)}
EKeys(S)       == DOMAIN S.e
\* edges with both ends in graph g (the only ones a per-graph view shows)
EKeysOf(S, g)  == {ek \in EKeys(S) : \A k \in ek : k[1] = g}
\* edges touching key k
Incident(S, k) == {ek \in EKeys(S) : k \in ek}
EK(g, a, b)    == {<<g, a>>, <<g, b>>}
Other(ek, k)   == IF Cardinality(ek) = 1 THEN k ELSE CHOOSE x \in ek : x # k

\* identity / guarded property names (fim/graph/abc_property_graph_constants.py)
ClassProp      == "Class"
NoUnset        == {"GraphID", "NodeID", "Class", "Type", "Name"}

QErr == "PropertyGraphQueryException"
IErr == "PropertyGraphImportException"
RErr == "RuntimeError"

\* Results are tagged records so that comparison with an observed result is total:
\*   [k |-> "none"] | [k |-> "val", v |-> x] | [k |-> "ids", ids |-> set, n |-> length of the list]
\*   [k |-> "pairs", pairs |-> set of <<m,k>>, n |-> length] | [k |-> "oneof", s |-> set of admissible sequences]
\* Property values are opaque string tokens ("s:text", "i:5", "[t1,t2]") on both sides of the binding.
R(S, out, res) == [st |-> S, out |-> out, res |-> res]
None           == [k |-> "none"]
Ok(S)          == R(S, "ok", None)
OkV(S, v)      == R(S, "ok", [k |-> "val", v |-> v])
OkR(S, r)      == R(S, "ok", r)
Fail(S, cls)   == R(S, cls, None)

IdSet(s)       == [k |-> "ids", ids |-> s, n |-> Cardinality(s)]

\* full property view of a node as get_node_properties returns it
NodeView(S, k) == Over(S.n[k].props, [p \in {"GraphID", "NodeID"} |-> IF p = "GraphID" THEN "s:" \o k[1] ELSE "s:" \o k[2]])

\* ------------------------------------------------------------------ mutators
AddNode(S, g, n, c, props) ==
    IF Has(S, g, n) THEN Fail(S, QErr)            \* a node id is unique within its graph whatever the class
    ELSE Ok([S EXCEPT !.n = Upd(S.n, <<g, n>>, [cls |-> c, props |-> Fn(props)])])

DeleteNode(S, g, n) ==
    IF ~Has(S, g, n) THEN Fail(S, QErr)
    ELSE Ok([S EXCEPT !.n = Without(S.n, {<<g, n>>}), !.e = Without(S.e, Incident(S, <<g, n>>))])

\* nx.Graph.add_edge on an existing edge overwrites the class and merges the properties
AddLink(S, g, a, rel, b, props) ==
    IF ~Has(S, g, a) \/ ~Has(S, g, b) THEN Fail(S, QErr)
    ELSE LET ek  == EK(g, a, b)
             old == IF ek \in EKeys(S) THEN S.e[ek].props ELSE <<>>
         IN  Ok([S EXCEPT !.e = Upd(S.e, ek, [cls |-> rel, props |-> Over(old, props)])])

UpdateNodeProp(S, g, n, p, v) ==
    IF p = ClassProp \/ ~Has(S, g, n) THEN Fail(S, QErr)
    ELSE Ok([S EXCEPT !.n[<<g, n>>].props = Upd(@, p, v)])

UnsetNodeProp(S, g, n, p) ==
    IF p \in NoUnset \/ ~Has(S, g, n) THEN Fail(S, QErr)
    ELSE IF p \notin DOMAIN S.n[<<g, n>>].props THEN Fail(S, QErr)
    ELSE Ok([S EXCEPT !.n[<<g, n>>].props = Without(@, {p})])

UpdateNodesProp(S, g, p, v) ==
    IF KeysOf(S, g) = {} \/ p = ClassProp THEN Fail(S, QErr)
    ELSE Ok([S EXCEPT !.n = [k \in Keys(S) |-> IF k[1] = g THEN [S.n[k] EXCEPT !.props = Upd(@, p, v)]
                                                        ELSE S.n[k]]])

UpdateNodeProps(S, g, n, props) ==
    IF ClassProp \in DOMAIN props \/ ~Has(S, g, n) THEN Fail(S, QErr)
    ELSE Ok([S EXCEPT !.n[<<g, n>>].props = Over(@, props)])

LinkGuard(S, g, a, b, kind) ==
    /\ Has(S, g, a) /\ Has(S, g, b)
    /\ EK(g, a, b) \in EKeys(S)
    /\ S.e[EK(g, a, b)].cls = kind

UpdateLinkProp(S, g, a, b, kind, p, v) ==
    IF p = ClassProp \/ ~LinkGuard(S, g, a, b, kind) THEN Fail(S, QErr)
    ELSE Ok([S EXCEPT !.e[EK(g, a, b)].props = Upd(@, p, v)])

\* unsetting an absent link property is silently accepted (asymmetry with nodes, as implemented on all backends)
UnsetLinkProp(S, g, a, b, kind, p) ==
    IF p = ClassProp \/ ~LinkGuard(S, g, a, b, kind) THEN Fail(S, QErr)
    ELSE Ok([S EXCEPT !.e[EK(g, a, b)].props = Without(@, {p})])

UpdateLinkProps(S, g, a, b, kind, props) ==
    IF ClassProp \in DOMAIN props \/ ~LinkGuard(S, g, a, b, kind) THEN Fail(S, QErr)
    ELSE Ok([S EXCEPT !.e[EK(g, a, b)].props = Over(@, props)])

DropGraph(S, g) ==
    LET ks == KeysOf(S, g)
    IN  [S EXCEPT !.n = Without(S.n, ks), !.e = Without(S.e, {ek \in EKeys(S) : ek \cap ks # {}})]

DeleteGraph(S, g) == Ok(DropGraph(S, g))
DeleteAll(S)      == Ok([S EXCEPT !.n = <<>>, !.e = <<>>])

\* content of graph g as a document keyed by node id (what serialisation carries)
DocOf(S, g) ==
    [gid |-> g, ok |-> TRUE, noid |-> {}, stamp |-> [x \in Nids(S, g) |-> g],
     n |-> [x \in Nids(S, g) |-> S.n[<<g, x>>]],
     e |-> [ek \in {{k[2] : k \in kk} : kk \in EKeysOf(S, g)} |->
                S.e[{<<g, x>> : x \in ek}]]]

\* place a document under graph id h, replacing whatever h held
PutDoc(S, d, h) ==
    LET T == DropGraph(S, h)
    IN  [T EXCEPT !.n = Over(T.n, [k \in {<<h, x>> : x \in DOMAIN d.n} |-> d.n[k[2]]]),
                  !.e = Over(T.e, [kk \in {{<<h, x>> : x \in ek} : ek \in DOMAIN d.e} |->
                                       d.e[{k[2] : k \in kk}]])]

Export(S, g) ==
    \* "return None if graph is not found"; the per-graph store hands out an empty document instead - either way
    \* nothing importable is produced (Import then fails with an import exception on both)
    IF KeysOf(S, g) = {} THEN OkR([S EXCEPT !.doc = NoDoc], [k |-> "anyof", s |-> {"nograph", "text"}])
    ELSE OkV([S EXCEPT !.doc = DocOf(S, g)], "text")

\* harness-side editing of the serialised text (not a FIM call): drop one node's NodeID, or restamp one node's
\* GraphID.  Models documents "lacking node ids" and "with mixed graph ids" (C01, C04, C20 fault paths).
Tamper(S, kind, n, g2) ==
    IF ~S.doc.ok \/ n \notin DOMAIN S.doc.n THEN Ok(S)
    ELSE IF kind = "drop_nodeid" THEN Ok([S EXCEPT !.doc.noid = @ \cup {n}])
    ELSE Ok([S EXCEPT !.doc.stamp = Upd(@, n, g2)])

\* What the serialised text itself must carry (read back with plain networkx/lxml, not with FIM): every node with its
\* node id, graph id, class and properties, every edge with class and properties, and - in GraphML - the label markup
\* the persistent (Neo4j) importer needs on EVERY node and edge.
DocView(S, g, fmt) ==
    [n |-> [x \in Nids(S, g) |-> [cls |-> S.n[<<g, x>>].cls, props |-> S.n[<<g, x>>].props, gid |-> g,
                                  labels |-> IF fmt = "graphml" THEN ":GraphNode:" \o S.n[<<g, x>>].cls ELSE "-"]],
     e |-> [ek \in {{k[2] : k \in kk} : kk \in EKeysOf(S, g)} |->
               LET r == S.e[{<<g, x>> : x \in ek}]
               IN  [cls |-> r.cls, props |-> r.props, label |-> IF fmt = "graphml" THEN r.cls ELSE "-"]]]

\* validate_graph: every node and edge has a class (true of every representable store); an empty graph cannot be listed
Validate(S, g) == IF KeysOf(S, g) = {} THEN Fail(S, QErr) ELSE Ok(S)

\* entry in {"string","file"}: caller chooses the id and every node must carry a NodeID;
\* {"string_direct","file_direct"}: id read from the document, which must carry exactly one graph id
\* (node ids are a documented precondition of the direct entries, so tampered-NodeID documents are not fed to them).
\* A rejected import changes nothing.
Import(S, entry, h) ==
    IF ~S.doc.ok THEN Fail(S, IErr)
    ELSE IF entry \in {"string", "file"} THEN
         (IF S.doc.noid # {} THEN Fail(S, IErr) ELSE OkV(PutDoc(S, S.doc, h), h))
    ELSE LET gs == {S.doc.stamp[x] : x \in DOMAIN S.doc.stamp} IN
         IF Cardinality(gs) # 1 THEN Fail(S, IErr)
         ELSE LET tg == CHOOSE x \in gs : TRUE IN OkV(PutDoc(S, S.doc, tg), tg)

\* (cloning a graph onto itself re-creates its nodes: edges to nodes of OTHER graphs - which only node merging
\*  creates - do not survive, exactly as for any other replacement of a graph)
Clone(S, g, h) ==
    IF KeysOf(S, g) = {} THEN Fail(S, QErr)
    ELSE Ok(PutDoc(S, DocOf(S, g), h))

\* merge node n of graph h into node n of graph g (shared store only).
\* pol : [prop -> {"discard","overwrite","combine"}], unmentioned = keep the caller's
MergeProps(mine, theirs, pol) ==
    [p \in DOMAIN mine |->
        IF p \in DOMAIN pol THEN
            CASE pol[p] = "discard"   -> mine[p]
              [] pol[p] = "overwrite" -> IF p \in DOMAIN theirs THEN theirs[p] ELSE mine[p]
              [] pol[p] = "combine"   -> IF p \in DOMAIN theirs THEN "[" \o mine[p] \o "," \o theirs[p] \o "]"
                                                               ELSE mine[p]
              [] OTHER                -> mine[p]
        ELSE mine[p]]

MergeNodes(S, g, n, h, pol) ==
    IF KeysOf(S, h) = {} THEN Fail(S, "AssertionError")     \* "assert other_graph.graph_exists()"
    ELSE IF ~Has(S, g, n) \/ ~Has(S, h, n) THEN Fail(S, QErr)
    ELSE LET km   == <<g, n>>
             ko   == <<h, n>>
             mv   == Incident(S, ko)
             \* an edge of the other node {ko, x} becomes {km, x}; a loop or a km--ko edge becomes a loop on km
             tgt(ek) == {IF k = ko THEN km ELSE k : k \in ek}
             keep == Without(S.e, mv)
             \* an edge both nodes have keeps the caller's class and properties (FirstWins)
             add  == [ek \in {tgt(x) : x \in mv} \ DOMAIN keep |-> S.e[CHOOSE x \in mv : tgt(x) = ek]]
         IN  Ok([S EXCEPT !.n = Upd(Without(S.n, {ko}), km,
                                     [cls |-> S.n[km].cls, props |-> MergeProps(S.n[km].props, S.n[ko].props, pol)]),
                          !.e = Over(add, keep)])

\* ------------------------------------------------------------------ observers
GetNodeProps(S, g, n) ==
    IF ~Has(S, g, n) THEN Fail(S, QErr)
    ELSE OkV(S, [cls |-> <<S.n[<<g, n>>].cls>>, props |-> NodeView(S, <<g, n>>)])

GetLinkProps(S, g, a, b) ==
    IF ~Has(S, g, a) \/ ~Has(S, g, b) \/ EK(g, a, b) \notin EKeys(S) THEN Fail(S, QErr)
    ELSE OkV(S, S.e[EK(g, a, b)])

ListIds(S, g)  == IF KeysOf(S, g) = {} THEN Fail(S, QErr) ELSE OkR(S, IdSet(Nids(S, g)))
ByClass(S, g, c) == OkR(S, IdSet({x \in Nids(S, g) : S.n[<<g, x>>].cls = c}))
ByClassType(S, g, c, t) ==
    OkR(S, IdSet({x \in Nids(S, g) : /\ S.n[<<g, x>>].cls = c
                                     /\ "Type" \in DOMAIN S.n[<<g, x>>].props
                                     /\ S.n[<<g, x>>].props["Type"] = t}))
NodeExists(S, g, n, c) == OkV(S, Has(S, g, n) /\ S.n[<<g, n>>].cls = c)
CheckUnique(S, g, c, name) ==
    OkV(S, ~\E x \in Nids(S, g) : /\ S.n[<<g, x>>].cls = c
                                  /\ "Name" \in DOMAIN S.n[<<g, x>>].props
                                  /\ S.n[<<g, x>>].props["Name"] = name)
GraphExists(S, g) == OkV(S, KeysOf(S, g) # {})
FindMatching(S, g, h) ==
    IF KeysOf(S, g) = {} THEN Fail(S, QErr) ELSE OkR(S, IdSet(Nids(S, g) \cap Nids(S, h)))
StitchNodes(S, g) ==
    OkR(S, IdSet({x \in Nids(S, g) : /\ "StitchNode" \in DOMAIN S.n[<<g, x>>].props
                                     /\ S.n[<<g, x>>].props["StitchNode"] = "s:true"}))

\* --- neighbour queries (C06)
NbrVia(S, g, n, rel) ==
    {x \in Nids(S, g) : EK(g, n, x) \in EKeys(S) /\ S.e[EK(g, n, x)].cls = rel}
FirstNbrSet(S, g, n, rel, c) == {x \in NbrVia(S, g, n, rel) : S.n[<<g, x>>].cls = c}
FirstNbr(S, g, n, rel, c) ==
    IF ~Has(S, g, n) THEN Fail(S, QErr) ELSE OkR(S, IdSet(FirstNbrSet(S, g, n, rel, c)))
SecondNbr(S, g, n, r1, c1, r2, c2) ==
    IF ~Has(S, g, n) THEN Fail(S, QErr)
    ELSE LET prs == {<<m, k>> \in Nids(S, g) \X Nids(S, g) :
                        /\ m \in FirstNbrSet(S, g, n, r1, c1)
                        /\ k \in FirstNbrSet(S, g, m, r2, c2)
                        /\ k # n}
         IN  OkR(S, [k |-> "pairs", pairs |-> prs, n |-> Cardinality(prs)])

\* Named deviation (known finding): the second-hop relation filter collects the first-hop node instead of the
\* second-hop node in its drop list, so the second relation is ignored - except that a first-hop node with a
\* self-loop is removed from its own second-hop set as soon as any of its edges has another relation.
AnyNbr(S, g, n) == {x \in Nids(S, g) : EK(g, n, x) \in EKeys(S)}
SecondNbrAsImplemented(S, g, n, r1, c1, r2, c2) ==
    {<<m, k>> \in Nids(S, g) \X Nids(S, g) :
        /\ m \in FirstNbrSet(S, g, n, r1, c1)
        /\ k \in AnyNbr(S, g, m) /\ S.n[<<g, k>>].cls = c2
        /\ k # n
        /\ ~(k = m /\ \E x \in AnyNbr(S, g, m) : S.e[EK(g, m, x)].cls # r2)}

\* --- path queries (C06).  rel = "" means any relation.
Adj(S, g, rel, x, y) ==
    /\ EK(g, x, y) \in EKeys(S)
    /\ (rel = "" \/ S.e[EK(g, x, y)].cls = rel)

\* BFS layers from a: Layer[i] = nodes at distance exactly i
RECURSIVE Layers(_, _, _, _, _)
Layers(S, g, rel, seen, frontier) ==
    IF frontier = {} THEN <<>>
    ELSE LET nxt == {y \in Nids(S, g) \ seen : \E x \in frontier : Adj(S, g, rel, x, y)}
         IN  <<frontier>> \o Layers(S, g, rel, seen \cup nxt, nxt)

\* all shortest paths a..z as sequences of node ids; {} if unreachable
ShortestPathSet(S, g, rel, a, z) ==
    LET L  == Layers(S, g, rel, {a}, {a})
        dz == {i \in 1..Len(L) : z \in L[i]}
    IN  IF dz = {} THEN {}
        ELSE LET d == CHOOSE i \in dz : TRUE
                 RECURSIVE Back(_, _)
                 \* all shortest paths from a to y where y is in layer i
                 Back(y, i) == IF i = 1 THEN {<<y>>}
                               ELSE UNION {{Append(p, y) : p \in Back(x, i - 1)} :
                                            x \in {x \in L[i - 1] : Adj(S, g, rel, x, y)}}
             IN  Back(z, d)

ShortestPath(S, g, a, z, rel) ==
    IF KeysOf(S, g) = {} \/ ~Has(S, g, a) \/ ~Has(S, g, z) THEN Fail(S, QErr)
    ELSE OkR(S, [k |-> "oneof", s |-> ShortestPathSet(S, g, rel, a, z)])

\* simple paths a..z (a # z) whose node set induces no cycle ("no loops", as the code documents it),
\* containing all hops; minimal length among those
RECURSIVE Extend(_, _, _, _)
Extend(S, g, z, p) ==
    IF p[Len(p)] = z THEN {p}
    ELSE UNION {Extend(S, g, z, Append(p, y)) :
                  y \in {y \in Nids(S, g) : y \notin Range(p) /\ Adj(S, g, "", p[Len(p)], y)}}
SimplePaths(S, g, a, z) == Extend(S, g, z, <<a>>)
\* the subgraph induced by the nodes of a simple path is a forest iff it has exactly Len-1 edges (no chord, no loop)
InducedAcyclic(S, g, p) ==
    Cardinality({ek \in EKeysOf(S, g) : {k[2] : k \in ek} \subseteq Range(p)}) = Len(p) - 1
HopPathSet(S, g, a, z, hops) ==
    LET cand == {p \in SimplePaths(S, g, a, z) : InducedAcyclic(S, g, p) /\ hops \subseteq Range(p)}
    IN  {p \in cand : \A q \in cand : Len(p) <= Len(q)}
PathWithHops(S, g, a, z, hops) ==
    IF KeysOf(S, g) = {} \/ ~Has(S, g, a) \/ ~Has(S, g, z) THEN Fail(S, QErr)
    ELSE OkR(S, [k |-> "oneof", s |-> HopPathSet(S, g, a, z, hops)])

\* ------------------------------------------------------------------ dispatch
Apply(S, o) ==
    CASE o.op = "AddNode"         -> AddNode(S, o.g, o.n, o.cls, o.props)
      [] o.op = "DeleteNode"      -> DeleteNode(S, o.g, o.n)
      [] o.op = "AddLink"         -> AddLink(S, o.g, o.a, o.rel, o.b, o.props)
      [] o.op = "UpdateNodeProp"  -> UpdateNodeProp(S, o.g, o.n, o.p, o.v)
      [] o.op = "UnsetNodeProp"   -> UnsetNodeProp(S, o.g, o.n, o.p)
      [] o.op = "UpdateNodesProp" -> UpdateNodesProp(S, o.g, o.p, o.v)
      [] o.op = "UpdateNodeProps" -> UpdateNodeProps(S, o.g, o.n, o.props)
      [] o.op = "UpdateLinkProp"  -> UpdateLinkProp(S, o.g, o.a, o.b, o.kind, o.p, o.v)
      [] o.op = "UnsetLinkProp"   -> UnsetLinkProp(S, o.g, o.a, o.b, o.kind, o.p)
      [] o.op = "UpdateLinkProps" -> UpdateLinkProps(S, o.g, o.a, o.b, o.kind, o.props)
      [] o.op = "DeleteGraph"     -> DeleteGraph(S, o.g)
      [] o.op = "DeleteAll"       -> DeleteAll(S)
      [] o.op = "Export"          -> Export(S, o.g)
      [] o.op = "Import"          -> Import(S, o.entry, o.h)
      [] o.op = "Tamper"          -> Tamper(S, o.kind, o.n, o.g2)
      [] o.op = "ExportDoc"       -> Export(S, o.g)
      [] o.op = "Validate"        -> Validate(S, o.g)
      [] o.op = "Clone"           -> Clone(S, o.g, o.h)
      [] o.op = "MergeNodes"      -> MergeNodes(S, o.g, o.n, o.h, o.pol)
      [] o.op = "GetNodeProps"    -> GetNodeProps(S, o.g, o.n)
      [] o.op = "GetLinkProps"    -> GetLinkProps(S, o.g, o.a, o.b)
      [] o.op = "ListIds"         -> ListIds(S, o.g)
      [] o.op = "ByClass"         -> ByClass(S, o.g, o.cls)
      [] o.op = "ByClassType"     -> ByClassType(S, o.g, o.cls, o.t)
      [] o.op = "NodeExists"      -> NodeExists(S, o.g, o.n, o.cls)
      [] o.op = "CheckUnique"     -> CheckUnique(S, o.g, o.cls, o.name)
      [] o.op = "GraphExists"     -> GraphExists(S, o.g)
      [] o.op = "FindMatching"    -> FindMatching(S, o.g, o.h)
      [] o.op = "StitchNodes"     -> StitchNodes(S, o.g)
      [] o.op = "FirstNbr"        -> FirstNbr(S, o.g, o.n, o.rel, o.cls)
      [] o.op = "SecondNbr"       -> SecondNbr(S, o.g, o.n, o.r1, o.c1, o.r2, o.c2)
      [] o.op = "ShortestPath"    -> ShortestPath(S, o.g, o.a, o.z, o.rel)
      [] o.op = "PathWithHops"    -> PathWithHops(S, o.g, o.a, o.z, ToSet(o.hops))

\* The per-graph ("disjoint") store documents node merging as unsupported: RuntimeError, nothing changes.
\* GraphML cannot carry list-valued properties (the 'combine' merge policy creates them): networkx refuses.
IsListTok(v) == Len(v) > 0 /\ SubSeq(v, 1, 1) = "["
HasListValue(S, g) ==
    \/ \E k \in KeysOf(S, g) : \E p \in DOMAIN S.n[k].props : IsListTok(S.n[k].props[p])
    \/ \E ek \in EKeysOf(S, g) : \E p \in DOMAIN S.e[ek].props : IsListTok(S.e[ek].props[p])
ApplyOn(be, fmt, S, o) ==
    IF be = "disjoint" /\ o.op = "MergeNodes" THEN Fail(S, RErr)
    ELSE IF fmt = "graphml" /\ o.op \in {"Export", "ExportDoc"} /\ HasListValue(S, o.g)
         THEN Fail(S, "NetworkXError")
    ELSE IF o.op = "ExportDoc" /\ KeysOf(S, o.g) # {}
         THEN R([S EXCEPT !.doc = DocOf(S, o.g)], "ok", [k |-> "doc", v |-> DocView(S, o.g, fmt)])
    ELSE Apply(S, o)

\* Named deviations: places where the implementation is known to differ from the reference semantics.  A trace
\* line that matches one is still REJECTED - with the deviation's name as the clause, so that it can be listed
\* as a known finding precisely and any other disagreement on the same operation is still reported.
TargetOf(S, o) == IF o.op = "Clone" THEN o.h
                  ELSE IF o.entry \in {"string", "file"} THEN o.h
                  ELSE IF DOMAIN S.doc.stamp = {} THEN "" ELSE S.doc.stamp[CHOOSE x \in DOMAIN S.doc.stamp : TRUE]
Deviation(be, S, o, out, T) ==
    IF /\ be = "disjoint" /\ o.op \in {"Clone", "Import"} /\ out = "ok"
       /\ (o.op = "Clone" => KeysOf(S, o.g) # {} /\ o.g # o.h) /\ (o.op = "Import" => S.doc.ok /\ o.entry \in {"string", "file"})   \* the direct entries do replace
       /\ KeysOf(S, TargetOf(S, o)) # {}
       /\ T.n = S.n /\ T.e = S.e
    THEN "DisjointImportSkipsExisting"
    ELSE IF /\ be = "shared" /\ o.op = "Import" /\ o.entry \in {"string", "file"} /\ S.doc.ok /\ S.doc.noid # {}
            /\ out = IErr /\ KeysOf(S, o.h) # {}
            /\ T.n = DropGraph(S, o.h).n /\ T.e = DropGraph(S, o.h).e
    THEN "FailedImportDropsTarget"
    ELSE IF o.op = "Clone" /\ KeysOf(S, o.g) = {} /\ T.n = S.n /\ T.e = S.e /\ out \in {"AttributeError", "ok"}
    THEN "CloneOfMissingGraph"
    ELSE ""

\* Named deviation (known finding): GraphML text is re-parsed while the label markup is added, and XML end-of-line
\* normalisation turns CR and CR LF inside property values into LF.  The recorder names the normalised form of a
\* value class "@x" as "@x~lf".
NormCR(v) == IF v \in {"s:@cr", "s:@crlf"} THEN v \o "~lf" ELSE v
NormProps(pp) == [p \in DOMAIN pp |-> NormCR(pp[p])]
HasCR(pp) == \E p \in DOMAIN pp : pp[p] \in {"s:@cr", "s:@crlf"}
\* expected store T with the values of graph h normalised
NormGraph(T, h) ==
    [T EXCEPT !.n = [k \in DOMAIN T.n |-> IF k[1] = h THEN [T.n[k] EXCEPT !.props = NormProps(@)] ELSE T.n[k]],
              !.e = [ek \in DOMAIN T.e |-> IF \A k \in ek : k[1] = h THEN [T.e[ek] EXCEPT !.props = NormProps(@)] ELSE T.e[ek]]]
GraphHasCR(T, h) == \/ \E k \in KeysOf(T, h) : HasCR(T.n[k].props)
                    \/ \E ek \in EKeysOf(T, h) : HasCR(T.e[ek].props)

\* Graph ids an operation is allowed to touch (frame condition of C04)
Touched(o) ==
    CASE o.op \in {"Clone"}                   -> {o.h}
      [] o.op = "Tamper"                      -> {}
      [] o.op = "Import"                      -> {"*doc*"} \cup (IF "h" \in DOMAIN o THEN {o.h} ELSE {})
      [] o.op = "DeleteAll"                   -> {"*all*"}
      [] o.op = "MergeNodes"                  -> {o.g, o.h}
      [] OTHER                                -> {o.g}

\* ------------------------------------------------------------------ properties of a store state
Content(S, g) == [n |-> [k \in KeysOf(S, g) |-> S.n[k]], e |-> [ek \in EKeysOf(S, g) |-> S.e[ek]]]

\* every edge joins stored nodes
EdgesAnchored(S) == \A ek \in EKeys(S) : ek \subseteq Keys(S) /\ Cardinality(ek) \in {1, 2}

\* frame condition: an operation changes only the graphs it is addressed to
FrameOK(S, o, T) ==
    \A g \in Gids(S) \cup Gids(T) :
        (g \notin Touched(o) /\ "*all*" \notin Touched(o)
            /\ ~("*doc*" \in Touched(o) /\ g \in {S.doc.stamp[x] : x \in DOMAIN S.doc.stamp}))
            => Content(S, g) = Content(T, g)

=============================================================================
