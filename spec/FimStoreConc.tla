---------------------------- MODULE FimStoreConc ----------------------------
(***************************************************************************)
(* C20: the two store singletons (fim/graph/networkx_property_graph.py     *)
(* class __NetworkXGraphStorage and networkx_property_graph_disjoint.py)   *)
(* under concurrent use.  One spec action per critical-section step of the *)
(* code: acquire, read the id counter, validate, delete/replace, bump,     *)
(* add, release - so that TLC explores every interleaving of the steps of  *)
(* 2..3 threads.  With UseLock = FALSE the same steps run unprotected and  *)
(* the safety properties MUST fail (non-vacuity).                          *)
(*                                                                         *)
(* Store-level operations (records):                                       *)
(*   [op |-> "add_graph", g, labels (sequence of node labels), bad (0 = all *)
(*        nodes carry a NodeID, i > 0 = the i-th node lacks it)]           *)
(*   [op |-> "add_graph_direct", g, labels]   [op |-> "del_graph", g]      *)
(*   [op |-> "del_all"]   [op |-> "add_blank", g, label]                   *)
(*   [op |-> "extract", g]                                                 *)
(*   [op |-> "get_graph", g]  (per-graph store: under the lock, creates an  *)
(*        empty graph object on first access; shared store: no lock)        *)
(* and, on top of the store, the property graph's delete_node              *)
(*   [op |-> "del_node", g, label]  - one step, WITHOUT the lock (as coded) *)
(***************************************************************************)
EXTENDS FimStoreSeq

\* all contents reachable by running the scripts one operation at a time in some interleaving (program order kept)
RECURSIVE SeqOutcomes(_, _, _, _)
SeqOutcomes(be, scripts, pos, C) ==
    LET ready == {t \in DOMAIN scripts : pos[t] <= Len(scripts[t])}
    IN  IF ready = {} THEN {NonEmpty(C)}
        ELSE UNION {SeqOutcomes(be, scripts, [pos EXCEPT ![t] = @ + 1], SeqApply(be, C, scripts[t][pos[t]]).c) : t \in ready}

\* ------------------------------------------------------------------ the concurrent model
CONSTANTS Scripts,      \* [thread -> sequence of operations]
          UseLock,      \* FALSE: the critical sections run unprotected (must break the properties)
          Backend       \* "shared" | "disjoint"

Threads == DOMAIN Scripts

VARIABLES lock,     \* 0 = free, else holder
          ctr,      \* shared: next internal id;  disjoint: [gid -> next id]
          nodes,    \* shared: [iid -> [g, label]];  disjoint: [gid -> [iid -> label]]
          pc, ip, loc,
          rels,     \* releases performed by the current call of each thread
          acqs,     \* acquires performed by the current call
          lost,     \* a stored node was overwritten by another one (internal identity handed out twice)
          lockerr   \* a release of a lock not held by the releaser / a call returned with unbalanced lock use
vars == <<lock, ctr, nodes, pc, ip, loc, rels, acqs, lost, lockerr>>

Op(t) == Scripts[t][ip[t]]

Init == /\ lock = 0
        /\ ctr = IF Backend = "shared" THEN 1 ELSE <<>>
        /\ nodes = <<>>
        /\ pc = [t \in Threads |-> IF Len(Scripts[t]) = 0 THEN "done" ELSE "call"]
        /\ ip = [t \in Threads |-> 1]
        /\ loc = [t \in Threads |-> [base |-> 0]]
        /\ rels = [t \in Threads |-> 0]
        /\ acqs = [t \in Threads |-> 0]
        /\ lost = FALSE
        /\ lockerr = FALSE

Goto(t, l) == pc' = [pc EXCEPT ![t] = l]

\* first body step of each operation
Entry(o) == CASE o.op \in {"add_graph", "add_graph_direct"} -> "read"
              [] o.op = "del_graph" -> "delete"
              [] o.op = "del_all"   -> "delete"
              [] o.op = "add_blank" -> "read"
              [] o.op = "extract"   -> "copy"
              [] o.op = "get_graph" -> "lookup"

LockFree(o) == o.op = "del_node" \/ (o.op = "get_graph" /\ Backend = "shared")
Call(t) == /\ pc[t] = "call"
           /\ Goto(t, IF Op(t).op = "del_node" THEN "delnode"
                      ELSE IF Op(t).op = "get_graph" /\ Backend = "shared" THEN "ret"      \* returns the one graph object, no lock
                      ELSE "acq")
           /\ rels' = [rels EXCEPT ![t] = 0] /\ acqs' = [acqs EXCEPT ![t] = 0]
           /\ UNCHANGED <<lock, ctr, nodes, ip, loc, lost, lockerr>>

Acquire(t) == /\ pc[t] = "acq"
              /\ (UseLock => lock = 0)
              /\ lock' = IF UseLock THEN t ELSE lock
              /\ acqs' = [acqs EXCEPT ![t] = @ + 1]
              /\ Goto(t, Entry(Op(t)))
              /\ UNCHANGED <<ctr, nodes, ip, loc, rels, lost, lockerr>>

\* ---- shared store ------------------------------------------------------------------------------------------
SNodesOf(g) == {i \in DOMAIN nodes : nodes[i].g = g}
Without(f, D) == [x \in (DOMAIN f) \ D |-> f[x]]

SRead(t) == /\ pc[t] = "read" /\ Backend = "shared"
            /\ loc' = [loc EXCEPT ![t].base = ctr]
            /\ Goto(t, IF Op(t).op = "add_graph" THEN "validate" ELSE IF Op(t).op = "add_graph_direct" THEN "delete" ELSE "add")
            /\ UNCHANGED <<lock, ctr, nodes, ip, rels, acqs, lost, lockerr>>

Validate(t) == /\ pc[t] = "validate"
               /\ Goto(t, IF Op(t).bad # 0 THEN "raise" ELSE "delete")
               /\ UNCHANGED <<lock, ctr, nodes, ip, loc, rels, acqs, lost, lockerr>>

SDelete(t) == /\ pc[t] = "delete" /\ Backend = "shared"
              /\ nodes' = IF Op(t).op = "del_all" THEN <<>> ELSE Without(nodes, SNodesOf(Op(t).g))
              /\ Goto(t, IF Op(t).op \in {"del_graph", "del_all"} THEN "rel" ELSE "bump")
              /\ UNCHANGED <<lock, ctr, ip, loc, rels, acqs, lost, lockerr>>

SBump(t) == /\ pc[t] = "bump" /\ Backend = "shared"
            /\ ctr' = ctr + Len(Op(t).labels)
            /\ Goto(t, "add")
            /\ UNCHANGED <<lock, nodes, ip, loc, rels, acqs, lost, lockerr>>

SAdd(t) == /\ pc[t] = "add" /\ Backend = "shared"
           /\ LET o == Op(t)
                  labs == IF o.op = "add_blank" THEN <<o.label>> ELSE o.labels
                  new == [i \in {loc[t].base + j - 1 : j \in 1..Len(labs)} |-> [g |-> o.g, label |-> labs[i - loc[t].base + 1]]]
              IN  /\ nodes' = [i \in (DOMAIN nodes) \cup (DOMAIN new) |-> IF i \in DOMAIN new THEN new[i] ELSE nodes[i]]
                  /\ lost' = (lost \/ (DOMAIN new) \cap (DOMAIN nodes) # {})
                  \* add_blank_node_to_graph bumps after adding
                  /\ ctr' = IF o.op = "add_blank" THEN ctr + 1 ELSE ctr
           /\ Goto(t, "rel")
           /\ UNCHANGED <<lock, ip, loc, rels, acqs, lockerr>>

SCopy(t) == /\ pc[t] = "copy"
            /\ Goto(t, "rel")
            /\ UNCHANGED <<lock, ctr, nodes, ip, loc, rels, acqs, lost, lockerr>>

\* ---- per-graph ("disjoint") store ----------------------------------------------------------------------------
DGet(g) == IF g \in DOMAIN nodes THEN nodes[g] ELSE <<>>
DCtr(g) == IF g \in DOMAIN ctr THEN ctr[g] ELSE 1
Put(f, k, v) == [x \in (DOMAIN f) \cup {k} |-> IF x = k THEN v ELSE f[x]]

\* add_graph: "already present" -> early return through finally (exactly one release)
DRead(t) == /\ pc[t] = "read" /\ Backend = "disjoint"
            /\ LET o == Op(t) IN
                 IF o.op = "add_graph" THEN
                      /\ Goto(t, IF DOMAIN DGet(o.g) # {} THEN "rel" ELSE "validate")
                      /\ UNCHANGED <<loc, ctr>>
                 ELSE IF o.op = "add_graph_direct" THEN Goto(t, "delete") /\ UNCHANGED <<loc, ctr>>
                 ELSE /\ loc' = [loc EXCEPT ![t].base = DCtr(o.g)]       \* add_blank: new_id = graph_node_ids[g]
                      /\ ctr' = ctr
                      /\ Goto(t, "bump")
            /\ UNCHANGED <<lock, nodes, ip, rels, acqs, lost, lockerr>>

DBump(t) == /\ pc[t] = "bump" /\ Backend = "disjoint"                  \* graph_node_ids[g] += 1
            /\ ctr' = Put(ctr, Op(t).g, DCtr(Op(t).g) + 1)
            /\ Goto(t, "add")
            /\ UNCHANGED <<lock, nodes, ip, loc, rels, acqs, lost, lockerr>>

DDelete(t) == /\ pc[t] = "delete" /\ Backend = "disjoint"
              /\ LET o == Op(t) IN
                   IF o.op = "del_all" THEN nodes' = <<>> /\ Goto(t, "rel")
                   ELSE IF o.op = "del_graph" THEN nodes' = Put(nodes, o.g, <<>>) /\ Goto(t, "rel")
                   ELSE nodes' = nodes /\ Goto(t, "add")
              /\ UNCHANGED <<lock, ctr, ip, loc, rels, acqs, lost, lockerr>>

DAdd(t) == /\ pc[t] = "add" /\ Backend = "disjoint"
           /\ LET o == Op(t) IN
                IF o.op = "add_blank" THEN
                     /\ nodes' = Put(nodes, o.g, Put(DGet(o.g), loc[t].base, o.label))
                     /\ lost' = (lost \/ loc[t].base \in DOMAIN DGet(o.g))
                     /\ ctr' = ctr
                ELSE /\ nodes' = Put(nodes, o.g, [i \in 1..Len(o.labels) |-> o.labels[i]])
                     /\ ctr' = Put(ctr, o.g, Len(o.labels) + 1)
                     /\ lost' = lost
           /\ Goto(t, "rel")
           /\ UNCHANGED <<lock, ip, loc, rels, acqs, lockerr>>

\* ---- get_graph of the per-graph store: the lookup creates (and stores) an empty graph object for an unseen id - a
\* write, which is why it happens under the lock
DLookup(t) == /\ pc[t] = "lookup" /\ Backend = "disjoint"
              /\ nodes' = IF Op(t).g \in DOMAIN nodes THEN nodes ELSE Put(nodes, Op(t).g, <<>>)
              /\ Goto(t, "rel")
              /\ UNCHANGED <<lock, ctr, ip, loc, rels, acqs, lost, lockerr>>

\* ---- delete_node: removes the stored node carrying the label (nothing to do when there is none: the call raises)
DelNode(t) == /\ pc[t] = "delnode"
              /\ LET o == Op(t) IN
                   nodes' = IF Backend = "shared"
                            THEN Without(nodes, {i \in SNodesOf(o.g) : nodes[i].label = o.label})
                            ELSE IF o.g \in DOMAIN nodes
                                 THEN Put(nodes, o.g, Without(nodes[o.g], {i \in DOMAIN nodes[o.g] : nodes[o.g][i] = o.label}))
                                 ELSE nodes
              /\ Goto(t, "ret")
              /\ UNCHANGED <<lock, ctr, ip, loc, rels, acqs, lost, lockerr>>

\* ---- exception path: finally releases ------------------------------------------------------------------------
Raise(t) == /\ pc[t] = "raise"
            /\ Goto(t, "rel")
            /\ UNCHANGED <<lock, ctr, nodes, ip, loc, rels, acqs, lost, lockerr>>

Release(t) == /\ pc[t] = "rel"
              /\ lockerr' = (lockerr \/ (UseLock /\ lock # t))
              /\ lock' = IF UseLock /\ lock = t THEN 0 ELSE lock
              /\ rels' = [rels EXCEPT ![t] = @ + 1]
              /\ Goto(t, "ret")
              /\ UNCHANGED <<ctr, nodes, ip, loc, acqs, lost>>

Return(t) == /\ pc[t] = "ret"
             /\ lockerr' = (lockerr \/ (~LockFree(Op(t)) /\ (rels[t] # 1 \/ acqs[t] # 1)) \/ (UseLock /\ lock = t))
             /\ IF ip[t] = Len(Scripts[t]) THEN Goto(t, "done") /\ ip' = ip
                ELSE Goto(t, "call") /\ ip' = [ip EXCEPT ![t] = @ + 1]
             /\ UNCHANGED <<lock, ctr, nodes, loc, rels, acqs, lost>>

Step(t) == \/ Call(t) \/ Acquire(t) \/ SRead(t) \/ Validate(t) \/ SDelete(t) \/ SBump(t) \/ SAdd(t) \/ SCopy(t)
           \/ DRead(t) \/ DBump(t) \/ DDelete(t) \/ DAdd(t) \/ DelNode(t) \/ DLookup(t) \/ Raise(t) \/ Release(t) \/ Return(t)

Next == \E t \in Threads : Step(t)
Spec == Init /\ [][Next]_vars /\ \A t \in Threads : WF_vars(Step(t))

AllDone == \A t \in Threads : pc[t] = "done"

\* abstract content of the concurrent store
Content ==
    IF Backend = "shared"
    THEN NonEmpty([g \in {nodes[i].g : i \in DOMAIN nodes} |-> {nodes[i].label : i \in SNodesOf(g)}])
    ELSE NonEmpty([g \in DOMAIN nodes |-> {nodes[g][i] : i \in DOMAIN nodes[g]}])

\* ------------------------------------------------------------------ properties
\* every store operation releases the lock exactly once on every path; nobody releases a lock it does not hold
LockBalanced == ~lockerr /\ (AllDone => lock = 0)
\* no internal identifier is handed out twice (no stored node overwritten by another)
NoDuplicateInternalId == ~lost
\* each graph ends up with exactly the nodes added to it: the final content is one a sequential execution produces
Linearizable == AllDone => Content \in SeqOutcomes(Backend, Scripts, [t \in Threads |-> 1], <<>>)
\* mutual exclusion of the critical sections
MutualExclusion == UseLock => Cardinality({t \in Threads : pc[t] \notin {"call", "acq", "ret", "done", "delnode"}}) <= 1
\* no thread blocks forever
Termination == <>AllDone
=============================================================================
