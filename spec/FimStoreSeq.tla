---------------------------- MODULE FimStoreSeq ----------------------------
(* Atomic (sequential) meaning of the store-level operations of the two in-memory stores; shared by the      *)
(* concurrent model (FimStoreConc) and by the validator of recorded concurrent histories (Trace_FimStoreConc). *)
EXTENDS Naturals, Sequences, FiniteSets, TLC, SequencesExt, FiniteSetsExt

\* ------------------------------------------------------------------ sequential (atomic) meaning of an operation
\* abstract content: [gid -> set of node labels]   (total over the gids that occur)
SeqGet(C, g) == IF g \in DOMAIN C THEN C[g] ELSE {}
SeqPut(C, g, s) == [x \in (DOMAIN C) \cup {g} |-> IF x = g THEN s ELSE C[x]]
IErr == "PropertyGraphImportException"

\* returns [c |-> content', out |-> outcome, res |-> set of labels (extract) or {}]
SeqApply(be, C, o) ==
    CASE o.op = "add_graph" ->
            \* the per-graph store looks for an existing graph first ("warn and exit") and validates afterwards
            IF be = "disjoint" /\ SeqGet(C, o.g) # {} THEN [c |-> C, out |-> "ok", res |-> {}]
            ELSE IF o.bad # 0 THEN [c |-> C, out |-> IErr, res |-> {}]
            ELSE [c |-> SeqPut(C, o.g, Range(o.labels)), out |-> "ok", res |-> {}]
      [] o.op = "add_graph_direct" -> [c |-> SeqPut(C, o.g, Range(o.labels)), out |-> "ok", res |-> {}]
      [] o.op = "del_graph" -> [c |-> SeqPut(C, o.g, {}), out |-> "ok", res |-> {}]
      [] o.op = "del_all"   -> [c |-> [x \in DOMAIN C |-> {}], out |-> "ok", res |-> {}]
      [] o.op = "add_blank" -> [c |-> SeqPut(C, o.g, SeqGet(C, o.g) \cup {o.label}), out |-> "ok", res |-> {}]
      [] o.op = "extract"   -> [c |-> C, out |-> "ok", res |-> SeqGet(C, o.g)]
      \* get_graph: the stored graph object of an id (the per-graph store creates an empty one on first access)
      [] o.op = "get_graph" -> [c |-> C, out |-> "ok", res |-> {}]
      \* delete_node of the property graph on top of the store (not a store operation: it takes no lock)
      [] o.op = "del_node"  -> IF o.label \in SeqGet(C, o.g)
                               THEN [c |-> SeqPut(C, o.g, SeqGet(C, o.g) \ {o.label}), out |-> "ok", res |-> {}]
                               ELSE [c |-> C, out |-> "PropertyGraphQueryException", res |-> {}]

NonEmpty(C) == [g \in {x \in DOMAIN C : C[x] # {}} |-> C[g]]

=============================================================================
