---------------------------- MODULE FimTopology ----------------------------
(***************************************************************************)
(* Executable reference model of the topology-building API                 *)
(* (fim/user/topology.py, node.py, component.py, network_service.py,       *)
(* interface.py, link.py and the add_*/remove_* families of                *)
(* fim/graph/abc_property_graph.py) - properties C07, C08, C09, C10.       *)
(*                                                                         *)
(* State  T = [el, conn]                                                   *)
(*   el   : [Path -> [cls, type, name, par, sp, rp]]                       *)
(*          Path = the element's name path ("n1", "n1/c1", "n1/c1/<ns>",   *)
(*          ".../<iface>", "svc:<s>", "svc:<s>/<port>", "link:<l>"), i.e.  *)
(*          library-generated uuids never appear; par = owner path or "".  *)
(*          sp : string-valued properties the model tracks                 *)
(*               (Site, StitchNode, Layer, Model)                          *)
(*          rp : record-valued properties (Capacities, Labels,             *)
(*               ReservationInfo), values are tokens ("i:100", "s:p1")     *)
(*   conn : set of <<link path, interface path>> (link ends)               *)
(* Edges of the real graph are derived: owner --has--> component/service,  *)
(* owner --connects--> interface, link --connects--> interface.            *)
(*                                                                         *)
(* Apply(T, o) is total and deterministic: [st, out, res]; failing calls   *)
(* leave st = T (C09).                                                     *)
(***************************************************************************)
EXTENDS Naturals, Sequences, FiniteSets, TLC, SequencesExt, FiniteSetsExt

CONSTANT Flavour          \* "experiment" | "substrate"

Empty == [el |-> <<>>, conn |-> {}]

Upd(f, k, v)  == [x \in (DOMAIN f) \cup {k} |-> IF x = k THEN v ELSE f[x]]
Over(f, g)    == [x \in (DOMAIN f) \cup (DOMAIN g) |-> IF x \in DOMAIN g THEN g[x] ELSE f[x]]
Without(f, D) == [x \in (DOMAIN f) \ D |-> f[x]]
Fn(f)         == [x \in DOMAIN f |-> f[x]]

TErr == "TopologyException"
QErr == "PropertyGraphQueryException"
VErr == "ValueError"
CErr == "CatalogException"
AErr == "AssertionError"

R(T, out, res) == [st |-> T, out |-> out, res |-> res]
None  == [k |-> "none"]
Ok(T) == R(T, "ok", None)
Fail(T, c) == R(T, c, None)

\* ------------------------------------------------------------------ vocabulary
NN == "NetworkNode"   CO == "Component"   NS == "NetworkService"   CP == "ConnectionPoint"   LK == "Link"

\* component models the alphabet uses: model key -> catalogue facts
Models == [nic2  |-> [type |-> "SmartNIC",  model |-> "ConnectX-6",   ports |-> <<"p1", "p2">>, bw |-> 100, ptype |-> "DedicatedPort"],
           nic25 |-> [type |-> "SmartNIC",  model |-> "ConnectX-5",   ports |-> <<"p1", "p2">>, bw |-> 25,  ptype |-> "DedicatedPort"],
           nic1  |-> [type |-> "SharedNIC", model |-> "ConnectX-6",   ports |-> <<"p1">>,       bw |-> 0,   ptype |-> "SharedPort"],
           gpu   |-> [type |-> "GPU",       model |-> "Tesla T4",     ports |-> <<>>,           bw |-> 0,   ptype |-> "-"],
           nvme  |-> [type |-> "NVME",      model |-> "P4510",        ports |-> <<>>,           bw |-> 0,   ptype |-> "-"],
           fpga  |-> [type |-> "FPGA",      model |-> "Xilinx-U280",  ports |-> <<"p1", "p2">>, bw |-> 100, ptype |-> "DedicatedPort"]]

\* ---- the constraint tables, PINNED here (fim/slivers/network_service.py ServiceConstraints,
\*      fim/slivers/network_node.py NodeConstraints, fim/slivers/network_link.py LinkConstraints); 0 = no limit
MirrorProps == {"mirror_port", "mirror_vlan", "mirror_direction"}
SC(layer, mn, mx, sites, req, forb, ifts) ==
    [layer |-> layer, min_if |-> mn, max_if |-> mx, sites |-> sites, req |-> req, forb |-> forb, iftypes |-> ifts]
ServiceConstraints ==
    [P4          |-> SC("L2", 1, 0, 1, {}, MirrorProps, {}),
     OVS         |-> SC("L2", 1, 0, 1, {}, MirrorProps, {}),
     VLAN        |-> SC("L2", 1, 0, 1, {}, MirrorProps \cup {"controller_url"}, {}),
     MPLS        |-> SC("L2", 1, 0, 1, {}, MirrorProps \cup {"controller_url"}, {}),
     L2Path      |-> SC("L2", 1, 2, 2, {}, MirrorProps \cup {"controller_url"}, {}),
     L2STS       |-> SC("L2", 2, 0, 2, {}, MirrorProps \cup {"controller_url", "ero"}, {}),
     L2PTP       |-> SC("L2", 2, 2, 2, {}, MirrorProps \cup {"controller_url"}, {"DedicatedPort", "FacilityPort", "SubInterface"}),
     L2Multisite |-> SC("L2", 1, 0, 0, {}, MirrorProps \cup {"controller_url"}, {}),
     L2Bridge    |-> SC("L2", 1, 0, 1, {}, MirrorProps \cup {"controller_url"}, {}),
     FABNetv4    |-> SC("L3", 1, 0, 1, {}, MirrorProps \cup {"controller_url"}, {}),
     FABNetv6    |-> SC("L3", 1, 0, 1, {}, MirrorProps \cup {"controller_url"}, {}),
     PortMirror  |-> SC("L2", 1, 1, 1, {"mirror_port", "mirror_direction", "site"}, {"controller_url"}, {}),
     L3VPN       |-> SC("L3", 1, 0, 0, {}, MirrorProps \cup {"controller_url"}, {}),
     FABNetv4Ext |-> SC("L3", 1, 0, 1, {}, MirrorProps \cup {"controller_url"}, {}),
     FABNetv6Ext |-> SC("L3", 1, 0, 1, {}, MirrorProps \cup {"controller_url"}, {})]
ServiceTypes == DOMAIN ServiceConstraints
NodeConstraints ==
    [Server    |-> [req |-> {"site"}, forb |-> {}],
     VM        |-> [req |-> {"site"}, forb |-> {}],
     Container |-> [req |-> {"site"}, forb |-> {}],
     Switch    |-> [req |-> {}, forb |-> {"attached_components_info", "image_type", "image_ref"}],
     NAS       |-> [req |-> {}, forb |-> {"attached_components_info", "image_type", "image_ref"}],
     Facility  |-> [req |-> {}, forb |-> {"attached_components_info", "image_type", "image_ref", "management_ip"}]]
LinkLayer == [Patch |-> "L2", L1Path |-> "L1", L2Path |-> "L2"]

\* name patterns (NAME_REGEX of each sliver class): abstracted to a verdict carried by the name token -
\* names starting with "!" are invalid for every class (the concretiser maps them to strings outside the pattern)
ValidName(n) == Len(n) > 0 /\ SubSeq(n, 1, 1) # "!"

\* ------------------------------------------------------------------ navigation
El(T)         == DOMAIN T.el
Has(T, p)     == p \in El(T)
Cls(T, p)     == T.el[p].cls
Kids(T, p)    == {q \in El(T) : T.el[q].par = p}
KidsOf(T, p, c) == {q \in Kids(T, p) : Cls(T, q) = c}
RECURSIVE Desc(_, _)
Desc(T, p)    == {p} \cup UNION {Desc(T, q) : q \in Kids(T, p)}
Nodes(T)      == {p \in El(T) : Cls(T, p) = NN}
Named(T, c, n) == {p \in El(T) : Cls(T, p) = c /\ T.el[p].name = n}
IsFacility(T, p) == Cls(T, p) = NN /\ T.el[p].type = "Facility"
\* view: topology.nodes excludes facilities
ViewNodes(T)  == {p \in Nodes(T) : ~IsFacility(T, p)}
Services(T)   == {p \in El(T) : Cls(T, p) = NS}
Links(T)      == {p \in El(T) : Cls(T, p) = LK}
LinkEnds(T, l) == {c[2] : c \in {x \in T.conn : x[1] = l}}
LinksOf(T, i)  == {c[1] : c \in {x \in T.conn : x[2] = i}}
\* interfaces one Link away
Peers(T, i)   == UNION {LinkEnds(T, l) \ {i} : l \in LinksOf(T, i)}
\* the ConnectionPoint neighbours of an interface (its children if it is a parent, its parent if it is a child)
CPNbrs(T, i)  == KidsOf(T, i, CP) \cup (IF Has(T, T.el[i].par) /\ Cls(T, T.el[i].par) = CP THEN {T.el[i].par} ELSE {})
\* interfaces of the network services of a node or component (not sub-interfaces)
DirectIfs(T, p) == UNION {KidsOf(T, s, CP) : s \in KidsOf(T, p, NS)}
\* node.interface_list: direct ones plus those of its components
NodeIfs(T, n) == DirectIfs(T, n) \cup UNION {DirectIfs(T, c) : c \in KidsOf(T, n, CO)}
\* every interface of a node incl. sub-interfaces
WithSubs(T, S) == S \cup UNION {KidsOf(T, i, CP) : i \in S}
\* owner node of an interface / service (get_owner_node)
RECURSIVE OwnerNode(_, _)
OwnerNode(T, p) == IF ~Has(T, p) THEN "" ELSE IF Cls(T, p) = NN THEN p
                   ELSE IF T.el[p].par = "" THEN "" ELSE OwnerNode(T, T.el[p].par)

Path(par, name) == IF par = "" THEN name ELSE par \o "/" \o name
SvcPath(n)  == "svc:" \o n
LinkPath(n) == "link:" \o n

E(cls, type, name, par, sp, rp) == [cls |-> cls, type |-> type, name |-> name, par |-> par, sp |-> sp, rp |-> rp]
Stitch == [StitchNode |-> "false"]
IntTok(i) == "i:" \o ToString(i)

\* ------------------------------------------------------------------ low-level removals (abc_property_graph.py)
DelEls(T, D) == [T EXCEPT !.el = Without(T.el, D), !.conn = {c \in T.conn : c[1] \notin D /\ c[2] \notin D}]

\* remove_cp_and_links(i, delete_parent): the interface, every ConnectionPoint neighbour that has no other
\* ConnectionPoint neighbour (children of a removed parent; the parent of a removed only child), and every link
\* that joined exactly two interfaces
RemoveCP(T, i, delParent) ==
    LET extra == IF delParent THEN {q \in CPNbrs(T, i) : Cardinality(CPNbrs(T, q)) = 1} ELSE {}
        ifs   == {i} \cup extra
        lks   == {l \in UNION {LinksOf(T, x) : x \in ifs} : Cardinality(LinkEnds(T, l)) = 2}
    IN  DelEls(T, ifs \cup lks)

RECURSIVE RemoveCPs(_, _)
RemoveCPs(T, S) == IF S = {} THEN T
                   ELSE LET i == CHOOSE x \in S : TRUE
                        IN  RemoveCPs(IF Has(T, i) THEN RemoveCP(T, i, TRUE) ELSE T, S \ {i})
\* remove_ns_with_cps_and_links
RemoveNS(T, s) == LET ifs == KidsOf(T, s, CP) IN RemoveCPs(DelEls(T, {s}), ifs)
RECURSIVE RemoveNSs(_, _)
RemoveNSs(T, S) == IF S = {} THEN T ELSE LET s == CHOOSE x \in S : TRUE IN RemoveNSs(RemoveNS(T, s), S \ {s})
\* remove_component_with_nss_cps_and_links
RemoveComp(T, c) == LET nss == KidsOf(T, c, NS) IN RemoveNSs(DelEls(T, {c}), nss)
RECURSIVE RemoveComps(_, _)
RemoveComps(T, S) == IF S = {} THEN T ELSE LET c == CHOOSE x \in S : TRUE IN RemoveComps(RemoveComp(T, c), S \ {c})
\* remove_network_node_with_components_nss_cps_and_links
RemoveNodeDeep(T, n) ==
    LET T1 == RemoveComps(T, KidsOf(T, n, CO))
        nss == KidsOf(T1, n, NS)
    IN  RemoveNSs(DelEls(T1, {n}), nss)

\* disconnect the ServicePort peers of a set of interfaces first (Topology.remove_node, Node.remove_component)
\* raises when an interface has more than one ServicePort peer
SPPeers(T, i) == {q \in Peers(T, i) : T.el[q].type = "ServicePort"}
RECURSIVE DisconnectAll(_, _)
DisconnectAll(T, S) ==
    IF S = {} THEN T
    ELSE LET i == CHOOSE x \in S : TRUE
             pp == IF Has(T, i) THEN SPPeers(T, i) ELSE {}
         IN  DisconnectAll(IF Cardinality(pp) = 1 THEN RemoveCP(T, CHOOSE q \in pp : TRUE, TRUE) ELSE T, S \ {i})
TooManyPeers(T, S) == \E i \in S : Cardinality(SPPeers(T, i)) > 1

\* ------------------------------------------------------------------ building operations
NodeEl(name, type, site, rp) == E(NN, type, name, "", [Site |-> site, StitchNode |-> "false"], rp)

\* caller-supplied ids (substrate models): "ids are distinct" whatever the class; the recorder marks elements created
\* with an explicit id by the pseudo-property "~cid"
CidUsed(T, cid) == cid # "" /\ \E p \in El(T) : "~cid" \in DOMAIN T.el[p].sp /\ T.el[p].sp["~cid"] = cid
WithCid(e, cid) == IF cid = "" THEN e ELSE [e EXCEPT !.sp = Upd(@, "~cid", cid)]
AddNode(T, name, site, ntype, rp, cid) ==
    IF Named(T, NN, name) \cap ViewNodes(T) # {} THEN Fail(T, TErr)          \* "Node names must be unique"
    ELSE IF ~ValidName(name) THEN Fail(T, VErr)
    ELSE IF Named(T, NN, name) # {} THEN Fail(T, QErr)                       \* same name as a facility
    ELSE IF CidUsed(T, cid) THEN Fail(T, QErr)
    ELSE Ok([T EXCEPT !.el = Upd(T.el, name, WithCid(NodeEl(name, ntype, site, rp), cid))])

RemoveNode(T, name) ==
    IF Named(T, NN, name) \cap ViewNodes(T) = {} THEN Fail(T, TErr)
    ELSE LET n == CHOOSE p \in Named(T, NN, name) \cap ViewNodes(T) : TRUE IN
         IF TooManyPeers(T, WithSubs(T, NodeIfs(T, n))) THEN Fail(T, TErr)
         ELSE Ok(RemoveNodeDeep(DisconnectAll(T, WithSubs(T, NodeIfs(T, n))), n))

\* elements a catalogue component consists of
CompEls(T, n, cname, mk, rp) ==
    LET m   == Models[mk]
        cp  == Path(n, cname)
        nsn == T.el[n].name \o "-" \o cname \o (IF m.type = "FPGA" THEN "-l2p4" ELSE "-l2ovs")
        nsp == Path(cp, nsn)
        comp == [x \in {cp} |-> E(CO, m.type, cname, n, [Model |-> m.model, StitchNode |-> "false"], rp)]
        ns   == IF Len(m.ports) = 0 THEN <<>>
                ELSE [x \in {nsp} |-> E(NS, IF m.type = "FPGA" THEN "P4" ELSE "OVS", nsn, cp,
                                        [Layer |-> "L2", StitchNode |-> "false"], <<>>)]
        ifs  == [x \in {Path(nsp, cname \o "-" \o m.ports[i]) : i \in 1..Len(m.ports)} |->
                    LET i == CHOOSE j \in 1..Len(m.ports) : Path(nsp, cname \o "-" \o m.ports[j]) = x
                    IN  E(CP, m.ptype, cname \o "-" \o m.ports[i], nsp, Stitch,
                          [Capacities |-> IF m.bw = 0 THEN [unit |-> "i:1"] ELSE [unit |-> "i:1", bw |-> IntTok(m.bw)],
                           \* substrate models hand in one Labels object per port (the recorder uses mac 00:..:0<i>)
                           Labels |-> IF Flavour = "substrate"
                                      THEN [local_name |-> "s:" \o m.ports[i], mac |-> "s:00:00:00:00:00:0" \o ToString(i)]
                                      ELSE [local_name |-> "s:" \o m.ports[i]]])]
    IN  Over(Over(comp, ns), ifs)

\* ifcid (substrate models): the caller-supplied id of the component's LAST interface; an id that is already taken is
\* discovered only when that interface is written - the whole component is refused and nothing of it stays
AddComponent(T, n, cname, mk, ifcid) ==
    IF ~Has(T, n) \/ Cls(T, n) # NN THEN Fail(T, "NoSuchElement")
    ELSE IF \E c \in KidsOf(T, n, CO) : T.el[c].name = cname THEN Fail(T, TErr)
    ELSE IF mk \notin DOMAIN Models THEN Fail(T, CErr)
    ELSE IF ~ValidName(cname) THEN Fail(T, VErr)
    ELSE IF ifcid # "" /\ Len(Models[mk].ports) > 0 /\ CidUsed(T, ifcid) THEN Fail(T, QErr)
    ELSE LET els == CompEls(T, n, cname, mk, <<>>)
             m == Models[mk]
             last == IF Len(m.ports) = 0 THEN ""
                     ELSE Path(Path(Path(n, cname), T.el[n].name \o "-" \o cname \o (IF m.type = "FPGA" THEN "-l2p4" ELSE "-l2ovs")),
                               cname \o "-" \o m.ports[Len(m.ports)])
         IN  Ok([T EXCEPT !.el = Over(T.el, IF ifcid # "" /\ last # "" THEN [els EXCEPT ![last] = WithCid(@, ifcid)] ELSE els)])

AddStorage(T, n, cname) ==
    IF ~Has(T, n) \/ Cls(T, n) # NN THEN Fail(T, "NoSuchElement")
    ELSE IF Flavour # "experiment" THEN Fail(T, TErr)
    ELSE IF \E c \in KidsOf(T, n, CO) : T.el[c].name = cname THEN Fail(T, TErr)
    ELSE IF ~ValidName(cname) THEN Fail(T, VErr)
    ELSE Ok([T EXCEPT !.el = Upd(T.el, Path(n, cname),
                                 E(CO, "Storage", cname, n, [Model |-> "NAS", StitchNode |-> "false"], <<>>))])

RemoveComponent(T, n, cname) ==
    IF ~Has(T, n) \/ Cls(T, n) # NN THEN Fail(T, "NoSuchElement")
    ELSE LET cs == {c \in KidsOf(T, n, CO) : T.el[c].name = cname} IN
         IF cs = {} THEN Fail(T, QErr)
         ELSE LET c == CHOOSE x \in cs : TRUE IN
              IF TooManyPeers(T, WithSubs(T, DirectIfs(T, c))) THEN Fail(T, TErr)
              ELSE Ok(RemoveComp(DisconnectAll(T, WithSubs(T, DirectIfs(T, c))), c))

\* ---- services
SvcEl(name, nstype, site, rp) ==
    E(NS, nstype, name, "", IF site = "" THEN [Layer |-> ServiceConstraints[nstype].layer, StitchNode |-> "false"]
                           ELSE [Layer |-> ServiceConstraints[nstype].layer, StitchNode |-> "false", Site |-> site], rp)

\* connect_interface(service s, node interface i): new ServicePort "<owner node name>-<iface name>" plus a link
ConnectBlocked(T, s, i) ==
    IF ~Has(T, i) THEN QErr                                   \* stale interface handle
    ELSE IF OwnerNode(T, i) = "" THEN TErr                    \* "not owned by a node"
    ELSE IF Peers(T, i) # {} THEN TErr                        \* "already connected"
    \* the service-side port is named "<owner node>-<interface>": it must be new in the service, its link new in the model
    ELSE IF Has(T, Path(s, T.el[OwnerNode(T, i)].name \o "-" \o T.el[i].name)) THEN TErr
    ELSE IF Has(T, LinkPath(T.el[OwnerNode(T, i)].name \o "-" \o T.el[i].name \o "-link")) THEN TErr
    ELSE ""
Guardrail(T, nstype, i) == Has(T, i) /\ nstype = "L2PTP" /\ T.el[i].type = "SharedPort"
ConnectEls(T, s, i) ==
    LET spn == T.el[OwnerNode(T, i)].name \o "-" \o T.el[i].name
        spp == Path(s, spn)
        lkn == spn \o "-link"
        lkp == LinkPath(lkn)
        lt  == IF T.el[i].type = "SharedPort" THEN "L2Path" ELSE "Patch"
    IN  [T EXCEPT !.el = Over(T.el, [x \in {spp, lkp} |->
                                        IF x = spp THEN E(CP, "ServicePort", spn, s, Stitch, <<>>)
                                        ELSE E(LK, lt, lkn, "", [Layer |-> LinkLayer[lt], StitchNode |-> "false"], <<>>)]),
                  !.conn = T.conn \cup {<<lkp, i>>, <<lkp, spp>>}]

\* NetworkService.__init__ with interfaces: connect one by one; a TopologyException rolls everything back,
\* any other exception class escapes WITHOUT rollback in the code - the reference semantics is atomic (C09)
RECURSIVE ConnectSeq(_, _, _, _, _)
ConnectSeq(T0, T, s, nstype, ifs) ==
    IF ifs = <<>> THEN Ok(T)
    ELSE LET i == Head(ifs) IN
         IF Guardrail(T, nstype, i) THEN Fail(T0, TErr)
         ELSE IF ConnectBlocked(T, s, i) # "" THEN Fail(T0, ConnectBlocked(T, s, i))
         ELSE ConnectSeq(T0, ConnectEls(T, s, i), s, nstype, Tail(ifs))

\* as implemented (named deviation ServicePortNameCollision): the derived port / link names are not checked
ConnectBlockedImpl(T, s, i) ==
    IF ~Has(T, i) THEN QErr ELSE IF OwnerNode(T, i) = "" THEN TErr ELSE IF Peers(T, i) # {} THEN TErr ELSE ""
\* connect_interface called through the handle of a service that has meanwhile been removed from the model: refused,
\* and - like every refused call - nothing stays behind (the recorder creates and removes a throw-away service to get
\* such a handle; "zz-stale" is never used as a name otherwise)
ConnectViaStale(T, i) ==
    IF ConnectBlockedImpl(T, "", i) # "" THEN Fail(T, ConnectBlockedImpl(T, "", i)) ELSE Fail(T, QErr)
RECURSIVE FailsAsImpl(_, _, _, _)
FailsAsImpl(T, s, nstype, ifs) ==                       \* outcome class of the failing call when names are not checked ("" = would not fail)
    IF ifs = <<>> THEN ""
    ELSE LET i == Head(ifs) IN
         IF Guardrail(T, nstype, i) THEN TErr
         ELSE IF ConnectBlockedImpl(T, s, i) # "" THEN ConnectBlockedImpl(T, s, i)
         ELSE FailsAsImpl(ConnectEls(T, s, i), s, nstype, Tail(ifs))

AddService(T, name, nstype, ifs, site, rp) ==
    IF ~ValidName(name) THEN Fail(T, VErr)
    ELSE IF Named(T, NS, name) # {} THEN Fail(T, QErr)                \* service names are unique in the graph
    ELSE LET s == SvcPath(name)
             T1 == [T EXCEPT !.el = Upd(T.el, s, SvcEl(name, nstype, site, rp))]
         IN  ConnectSeq(T, T1, s, nstype, ifs)

\* add_port_mirror_service: a PortMirror service with the mirrored-to interface connected, mirror port/direction recorded
AddPortMirror(T, name, from, to) ==
    LET r == AddService(T, name, "PortMirror", <<to>>, "", <<>>) IN
    IF r.out # "ok" THEN r
    ELSE Ok([r.st EXCEPT !.el[SvcPath(name)].sp = Over(@, [MirrorPort |-> from, MirrorDirection |-> "Both"])])

RemoveService(T, name) ==
    IF Cardinality(Named(T, NS, name)) # 1 THEN Fail(T, QErr)
    ELSE LET s == CHOOSE p \in Named(T, NS, name) : TRUE
             \* ports of OTHER services that face this one over a peering link are its peering artefacts too
             facing == {q \in UNION {Peers(T, p) : p \in KidsOf(T, s, CP)} : T.el[q].type = "ServicePort"}
             T1 == RemoveNS(T, s)
         IN  Ok(DelEls(T1, facing \cap El(T1)))

Connect(T, s, i) ==
    IF ~Has(T, s) THEN Fail(T, "NoSuchElement")
    ELSE IF ConnectBlocked(T, s, i) # "" THEN Fail(T, ConnectBlocked(T, s, i))
    ELSE Ok(ConnectEls(T, s, i))

\* disconnect_interface: removes the single service-side peer of the node interface (and the link);
\* nothing to do without a peer
Disconnect(T, s, i) ==
    IF ~Has(T, s) THEN Fail(T, "NoSuchElement")
    ELSE IF ~Has(T, i) THEN Fail(T, QErr)
    ELSE IF SPPeers(T, i) = {} THEN Ok(T)
    ELSE IF Cardinality(SPPeers(T, i)) > 1 THEN Fail(T, TErr)
    ELSE Ok(RemoveCP(T, CHOOSE q \in SPPeers(T, i) : TRUE, TRUE))

\* ---- facility / switch (composite builders)
\* ifs = <<>>: the original single-interface form (the interface is called <name>-int and takes the call's keyword
\* properties); otherwise one FacilityPort per listed name, each with the same labels/capacities
FacilityEls(name, site, rp, ifs) ==
    LET nsn == name \o "-ns" nsp == Path(name, nsn)
        ifns == IF ifs = <<>> THEN {name \o "-int"} ELSE ToSet(ifs) IN
    [x \in {name, nsp} \cup {Path(nsp, ifn) : ifn \in ifns} |->
        IF x = name THEN NodeEl(name, "Facility", site, <<>>)
        ELSE IF x = nsp THEN E(NS, "VLAN", nsn, name, [Layer |-> "L2", StitchNode |-> "false"], <<>>)
        ELSE E(CP, "FacilityPort", CHOOSE ifn \in ifns : Path(nsp, ifn) = x, nsp, Stitch, rp)]
BadIfs(ifs) == {i \in DOMAIN ifs : ~ValidName(ifs[i]) \/ \E j \in 1..(i - 1) : ifs[j] = ifs[i]}   \* invalid name / name used twice
AddFacility(T, name, site, rp, ifs) ==
    IF Named(T, NN, name) \cap ViewNodes(T) # {} THEN Fail(T, TErr)
    ELSE IF ~ValidName(name) THEN Fail(T, VErr)
    ELSE IF Named(T, NN, name) # {} THEN Fail(T, QErr)
    ELSE IF BadIfs(ifs) # {} THEN          \* the interfaces are created in order: the first bad one decides
         (IF ~ValidName(ifs[Min(BadIfs(ifs))]) THEN Fail(T, VErr) ELSE Fail(T, TErr))
    ELSE Ok([T EXCEPT !.el = Over(T.el, FacilityEls(name, site, rp, ifs))])
RemoveFacility(T, name) ==
    IF Cardinality(Named(T, NN, name)) # 1 THEN Fail(T, QErr)
    ELSE LET n == CHOOSE p \in Named(T, NN, name) : TRUE IN
         IF ~IsFacility(T, n) THEN Fail(T, TErr)
         ELSE IF TooManyPeers(T, WithSubs(T, NodeIfs(T, n))) THEN Fail(T, TErr)
         ELSE Ok(RemoveNodeDeep(DisconnectAll(T, WithSubs(T, NodeIfs(T, n))), n))      \* "same as removing a node"

SwitchEls(name, site, nports) ==
    LET nsn == name \o "-ns" nsp == Path(name, nsn)
        pn(i) == "p" \o ToString(i) IN
    Over([x \in {name, nsp} |-> IF x = name THEN NodeEl(name, "Switch", site, <<>>)
                                ELSE E(NS, "P4", nsn, name, [Layer |-> "L2", StitchNode |-> "false"], <<>>)],
         [x \in {Path(nsp, pn(i)) : i \in 1..nports} |->
            LET i == CHOOSE j \in 1..nports : Path(nsp, pn(j)) = x
            IN  E(CP, "DedicatedPort", pn(i), nsp, Stitch, [Capacities |-> [bw |-> "i:100"], Labels |-> [local_name |-> "s:" \o pn(i)]])])
AddSwitch(T, name, site, nports) ==
    IF Named(T, NN, name) \cap ViewNodes(T) # {} THEN Fail(T, TErr)
    ELSE IF ~ValidName(name) THEN Fail(T, VErr)
    ELSE IF Named(T, NN, name) # {} THEN Fail(T, QErr)
    ELSE Ok([T EXCEPT !.el = Over(T.el, SwitchEls(name, site, nports))])
RemoveSwitch(T, name) ==
    IF Cardinality(Named(T, NN, name)) # 1 THEN Fail(T, QErr)
    ELSE IF T.el[CHOOSE p \in Named(T, NN, name) : TRUE].type # "Switch" THEN Fail(T, TErr)
    ELSE RemoveNode(T, name)

\* ---- service peering (ASM)
PeerNames(T, a, b) == <<T.el[a].name \o "-" \o T.el[b].name, T.el[b].name \o "-" \o T.el[a].name>>
Peer(T, a, b) ==
    IF ~Has(T, a) \/ ~Has(T, b) THEN Fail(T, "NoSuchElement")
    ELSE LET na == PeerNames(T, a, b)[1] nb == PeerNames(T, a, b)[2]
             pa == Path(a, na) pb == Path(b, nb) lkn == na \o "-link" lkp == LinkPath(lkn) IN
         IF (\E q \in KidsOf(T, a, CP) : T.el[q].name = na) \/ (\E q \in KidsOf(T, b, CP) : T.el[q].name = nb)
            THEN Fail(T, TErr)
         ELSE Ok([T EXCEPT !.el = Over(T.el, [x \in {pa, pb, lkp} |->
                                   IF x = pa THEN E(CP, "ServicePort", na, a, Stitch, <<>>)
                                   ELSE IF x = pb THEN E(CP, "ServicePort", nb, b, Stitch, <<>>)
                                   ELSE E(LK, "L2Path", lkn, "", [Layer |-> "L2", StitchNode |-> "false"], <<>>)]),
                           !.conn = T.conn \cup {<<lkp, pa>>, <<lkp, pb>>}])
\* unpeer: the two ServicePorts that face each other over a link, and that link; services that do not peer: refused
FacingPorts(T, a, b) == {pr \in KidsOf(T, a, CP) \X KidsOf(T, b, CP) : pr[2] \in Peers(T, pr[1])}
Unpeer(T, a, b) ==
    IF ~Has(T, a) \/ ~Has(T, b) THEN Fail(T, "NoSuchElement")
    ELSE IF FacingPorts(T, a, b) = {} THEN Fail(T, TErr)
    ELSE LET pr == CHOOSE x \in FacingPorts(T, a, b) : TRUE
             T1 == RemoveCP(T, pr[1], TRUE)
         IN  Ok(IF Has(T1, pr[2]) THEN RemoveCP(T1, pr[2], TRUE) ELSE T1)

\* ---- sub-interfaces of dedicated ports
AddSubInterface(T, i, name, vlan) ==
    IF ~Has(T, i) THEN Fail(T, "NoSuchElement")
    ELSE IF T.el[i].type # "DedicatedPort" THEN Fail(T, AErr)
    ELSE IF \E q \in KidsOf(T, i, CP) : T.el[q].name = name THEN Fail(T, TErr)
    ELSE IF vlan = "" THEN Fail(T, TErr)
    ELSE IF \E q \in KidsOf(T, i, CP) : "Labels" \in DOMAIN T.el[q].rp /\ "vlan" \in DOMAIN T.el[q].rp["Labels"]
                                        /\ T.el[q].rp["Labels"]["vlan"] = "s:" \o vlan THEN Fail(T, TErr)
    ELSE IF "Labels" \notin DOMAIN T.el[i].rp THEN Fail(T, TErr)
    ELSE IF ~ValidName(name) THEN Fail(T, VErr)
    ELSE LET ln == IF "local_name" \in DOMAIN T.el[i].rp["Labels"] THEN [local_name |-> T.el[i].rp["Labels"]["local_name"]] ELSE <<>>
         IN  Ok([T EXCEPT !.el = Upd(T.el, Path(i, name),
                                     E(CP, "SubInterface", name, i, Stitch, [Labels |-> Over([vlan |-> "s:" \o vlan], ln)]))])
\* remove_child_interface: the child, its ServicePort peer and the link between them (its peering artefacts)
RemoveSubInterface(T, i, name) ==
    IF ~Has(T, i) THEN Fail(T, "NoSuchElement")
    ELSE IF T.el[i].type # "DedicatedPort" THEN Fail(T, AErr)
    ELSE LET cs == {q \in KidsOf(T, i, CP) : T.el[q].name = name} IN
         IF cs = {} THEN Fail(T, QErr)
         ELSE LET c == CHOOSE x \in cs : TRUE
                  T1 == DisconnectAll(T, {c})
              IN  Ok(RemoveCP(T1, c, FALSE))

\* ---- explicit links (substrate models)
AddLink(T, name, ltype, ifs) ==
    IF Named(T, LK, name) # {} THEN Fail(T, TErr)
    ELSE IF Len(ifs) = 0 THEN Fail(T, TErr)
    ELSE IF ~ValidName(name) THEN Fail(T, VErr)
    ELSE IF \E k \in 1..Len(ifs) : ~Has(T, ifs[k]) THEN Fail(T, QErr)
    ELSE LET lp == LinkPath(name) IN
         Ok([T EXCEPT !.el = Upd(T.el, lp, E(LK, ltype, name, "", [Layer |-> LinkLayer[ltype], StitchNode |-> "false"], <<>>)),
                      !.conn = T.conn \cup {<<lp, ifs[k]>> : k \in 1..Len(ifs)}])
\* removing a link removes the link and, where it was the link of a service connection, the service-side port
RemoveLink(T, name) ==
    IF Cardinality(Named(T, LK, name)) # 1 THEN Fail(T, QErr)
    ELSE LET l == CHOOSE p \in Named(T, LK, name) : TRUE
             sps == {q \in LinkEnds(T, l) : T.el[q].type = "ServicePort"}
         IN  Ok(DelEls(T, {l} \cup sps))

\* ---- node-level services and their interfaces (substrate)
AddNodeService(T, n, name, nstype, cid) ==
    IF ~Has(T, n) \/ Cls(T, n) # NN THEN Fail(T, "NoSuchElement")
    ELSE IF \E s \in KidsOf(T, n, NS) : T.el[s].name = name THEN Fail(T, TErr)
    ELSE IF ~ValidName(name) THEN Fail(T, VErr)
    ELSE IF CidUsed(T, cid) THEN Fail(T, QErr)
    ELSE Ok([T EXCEPT !.el = Upd(T.el, Path(n, name), WithCid(E(NS, nstype, name, n,
                                   [Layer |-> ServiceConstraints[nstype].layer, StitchNode |-> "false"], <<>>), cid))])
RemoveNodeService(T, n, name) ==
    IF ~Has(T, n) \/ Cls(T, n) # NN THEN Fail(T, "NoSuchElement")
    ELSE LET ss == {s \in KidsOf(T, n, NS) : T.el[s].name = name} IN
         IF ss = {} THEN Fail(T, QErr) ELSE Ok(RemoveNS(T, CHOOSE s \in ss : TRUE))
AddInterface(T, s, name, itype) ==
    IF ~Has(T, s) \/ Cls(T, s) # NS THEN Fail(T, "NoSuchElement")
    ELSE IF \E q \in KidsOf(T, s, CP) : T.el[q].name = name THEN Fail(T, TErr)
    ELSE IF ~ValidName(name) THEN Fail(T, VErr)
    ELSE Ok([T EXCEPT !.el = Upd(T.el, Path(s, name), E(CP, itype, name, s, Stitch, <<>>))])

\* ---- properties
\* rename: the name is validated like at creation and must stay unique in its scope; the element keeps its place
Rekey(p, old, new) == IF p = old THEN new
                      ELSE IF Len(p) > Len(old) /\ SubSeq(p, 1, Len(old) + 1) = old \o "/"
                           THEN new \o SubSeq(p, Len(old) + 1, Len(p)) ELSE p
Prefix(T, p) == IF Cls(T, p) = NS /\ T.el[p].par = "" THEN "svc:" ELSE IF Cls(T, p) = LK THEN "link:" ELSE ""
Rename(T, p, new) ==
    IF ~Has(T, p) THEN Fail(T, "NoSuchElement")
    ELSE IF ~ValidName(new) THEN Fail(T, VErr)
    ELSE LET np == IF T.el[p].par = "" THEN Prefix(T, p) \o new ELSE Path(T.el[p].par, new)
             scope == IF T.el[p].par = "" THEN {q \in El(T) : Cls(T, q) = Cls(T, p) /\ q # p}
                      ELSE Kids(T, T.el[p].par) \ {p}
         IN  IF \E q \in scope : T.el[q].name = new /\ Cls(T, q) = Cls(T, p) THEN Fail(T, TErr)
             ELSE Ok([el |-> [q \in {Rekey(x, p, np) : x \in El(T)} |->
                                LET x == CHOOSE y \in El(T) : Rekey(y, p, np) = q
                                IN  [T.el[x] EXCEPT !.name = IF x = p THEN new ELSE @, !.par = Rekey(@, p, np)]],
                      conn |-> {<<Rekey(c[1], p, np), Rekey(c[2], p, np)>> : c \in T.conn}])

\* set/unset one tracked property; kind "sp" (Site) or "rp" (Capacities / Labels / ReservationInfo)
SetProp(T, p, kind, pname, val) ==
    IF ~Has(T, p) THEN Fail(T, "NoSuchElement")
    ELSE IF kind = "sp" THEN Ok([T EXCEPT !.el[p].sp = Upd(@, pname, val)])
    ELSE Ok([T EXCEPT !.el[p].rp = Upd(@, pname, val)])
\* several properties in one call: all are checked before anything is written (one bad name / badly typed value => nothing)
RECURSIVE FoldProps(_, _, _, _)
FoldProps(T, p, items, i) == IF i > Len(items) THEN T ELSE FoldProps(SetProp(T, p, items[i].kind, items[i].pname, IF items[i].kind = "sp" THEN items[i].val ELSE Fn(items[i].val)).st, p, items, i + 1)
SetProps(T, p, items, bad) ==
    IF ~Has(T, p) THEN Fail(T, "NoSuchElement")
    ELSE IF bad = "unknown" THEN Fail(T, "AttributeError")
    ELSE IF bad = "type" THEN Fail(T, "AssertionError")
    ELSE Ok(FoldProps(T, p, items, 1))
UnsetProp(T, p, kind, pname) ==
    IF ~Has(T, p) THEN Fail(T, "NoSuchElement")
    ELSE IF kind = "sp" THEN (IF pname \notin DOMAIN T.el[p].sp THEN Fail(T, QErr) ELSE Ok([T EXCEPT !.el[p].sp = Without(@, {pname})]))
    ELSE (IF pname \notin DOMAIN T.el[p].rp THEN Fail(T, QErr) ELSE Ok([T EXCEPT !.el[p].rp = Without(@, {pname})]))

\* ------------------------------------------------------------------ observers
NamesOf(T, S) == {T.el[p].name : p \in S}
Views(T) ==
    R(T, "ok", [k |-> "views",
                nodes |-> NamesOf(T, ViewNodes(T)), facilities |-> NamesOf(T, {p \in Nodes(T) : IsFacility(T, p)}),
                links |-> NamesOf(T, Links(T)), services |-> NamesOf(T, Services(T)),
                \* topology.interface_list: interfaces of the (non-facility) nodes, as paths
                ifaces |-> UNION {NodeIfs(T, n) : n \in ViewNodes(T)},
                comps |-> UNION {KidsOf(T, n, CO) : n \in ViewNodes(T)}])
\* the interfaces a service / dedicated-port handle reports (cached on the handle) = those of a fresh lookup
\* navigation primitives everything else is built on (Topology.get_parent_element / get_owner_node and the typed-model
\* lookups find_*_by_name / get_all_*): beyond the listed properties, judged separately (never a verdict on a property)
Navigate(T, p) ==
    IF ~Has(T, p) THEN Fail(T, "NoSuchElement")
    ELSE R(T, "ok", [k |-> "nav",
                     parent |-> IF Cls(T, p) \in {NN, LK} THEN "" ELSE T.el[p].par,
                     owner  |-> IF Cls(T, p) \in {NN, LK} THEN "" ELSE OwnerNode(T, p),
                     comps  |-> NamesOf(T, KidsOf(T, p, CO)), svcs |-> NamesOf(T, KidsOf(T, p, NS)),
                     ifs    |-> IF Cls(T, p) = LK THEN NamesOf(T, LinkEnds(T, p)) ELSE NamesOf(T, KidsOf(T, p, CP))])
HandleIfs(T, p) == IF ~Has(T, p) THEN Fail(T, "NoSuchElement") ELSE R(T, "ok", [k |-> "ifs", v |-> NamesOf(T, KidsOf(T, p, CP))])

\* ------------------------------------------------------------------ validation (C10)
\* the node interfaces a service joins: peers of its ServicePorts, its other interfaces as they are
JoinedOK(T, s) == \A q \in KidsOf(T, s, CP) : T.el[q].type = "ServicePort" => Cardinality(Peers(T, q)) = 1
Joined(T, s) == {IF T.el[q].type = "ServicePort" THEN CHOOSE x \in Peers(T, q) : TRUE ELSE q : q \in KidsOf(T, s, CP)}
SiteOf(T, p) == IF "Site" \in DOMAIN T.el[p].sp THEN T.el[p].sp["Site"] ELSE ""
SvcSites(T, s) == {SiteOf(T, OwnerNode(T, i)) : i \in {x \in Joined(T, s) : OwnerNode(T, x) # ""}}
GraphProp == [mirror_port |-> "MirrorPort", mirror_direction |-> "MirrorDirection", mirror_vlan |-> "MirrorVlan",
              controller_url |-> "ControllerURL", ero |-> "ERO"]
HasProp(T, p, pn) == \* is a constrained property set on the element
    CASE pn = "site" -> SiteOf(T, p) # ""
      [] pn \in DOMAIN GraphProp -> GraphProp[pn] \in DOMAIN T.el[p].sp
      [] OTHER -> FALSE
ServiceValid(T, s) ==
    LET t == T.el[s].type c == ServiceConstraints[t] ifs == Joined(T, s) n == Cardinality(KidsOf(T, s, CP))
        sites == SvcSites(T, s) IN
    /\ JoinedOK(T, s)
    /\ (Flavour = "experiment" => (c.min_if = 0 \/ n >= c.min_if) /\ (c.max_if = 0 \/ n <= c.max_if))
    /\ (c.sites # 0 => Cardinality(sites) <= c.sites)
    /\ (c.sites # 0 /\ Cardinality(sites) = 1 /\ SiteOf(T, s) # "" => SiteOf(T, s) \in sites)    \* declared = inferred
    /\ (c.sites # 0 /\ Cardinality(sites) > 1 => SiteOf(T, s) = "")                              \* multi-site: none declared
    /\ \A pn \in c.req : HasProp(T, s, pn) \/ (pn = "site" /\ c.sites # 0 /\ Cardinality(sites) = 1)
    /\ \A pn \in c.forb : ~HasProp(T, s, pn)
    /\ (c.iftypes # {} => \A i \in ifs : T.el[i].type \in c.iftypes)
NodeValid(T, n) ==
    LET c == NodeConstraints[T.el[n].type] IN
    /\ \A pn \in c.req : pn = "site" => SiteOf(T, n) # ""
    /\ \A pn \in c.forb : pn = "attached_components_info" => TRUE     \* (the node sliver read back carries no components)
Valid(T) == (\A n \in ViewNodes(T) : NodeValid(T, n)) /\ (\A s \in Services(T) : ServiceValid(T, s))
\* a successful validation records the inferred site on single-site services
Inferred(T) ==
    [T EXCEPT !.el = [p \in El(T) |->
        IF Cls(T, p) = NS /\ ServiceConstraints[T.el[p].type].sites # 0 /\ Cardinality(SvcSites(T, p)) = 1 /\ SiteOf(T, p) = ""
        THEN [T.el[p] EXCEPT !.sp = Upd(@, "Site", CHOOSE x \in SvcSites(T, p) : TRUE)] ELSE T.el[p]]]
Validate(T) == IF Valid(T) THEN Ok(Inferred(T)) ELSE Fail(T, TErr)

\* ------------------------------------------------------------------ named deviations (known findings)
\* Places where the implementation is known to differ from the reference semantics above.  A trace line that matches
\* one is still REJECTED - with the deviation's name as its clause - so it can be listed precisely as a known
\* finding while any other disagreement on the same operation is still reported.
NameClash(T, s, i) ==
    Has(T, i) /\ OwnerNode(T, i) # "" /\ Peers(T, i) = {} /\
    (Has(T, Path(s, T.el[OwnerNode(T, i)].name \o "-" \o T.el[i].name)) \/
     Has(T, LinkPath(T.el[OwnerNode(T, i)].name \o "-" \o T.el[i].name \o "-link")))
Deviation(T, o, out, O) ==
    CASE o.op = "Rename" /\ out = "ok" /\ Has(T, o.p) /\ Rename(T, o.p, o.new).out # "ok"
            -> "RenameUnchecked"                         \* rename() neither validates the name nor checks uniqueness
      [] o.op = "RemoveLink" /\ out = "ok" /\ Cardinality(Named(T, LK, o.name)) = 1
         /\ O = DelEls(T, Named(T, LK, o.name)) /\ O # RemoveLink(T, o.name).st
            -> "RemoveLinkLeavesServicePort"             \* the service-side port stays behind without a peer
      [] o.op = "RemoveService" /\ out = "ok" /\ Cardinality(Named(T, NS, o.name)) = 1
         /\ O = RemoveNS(T, CHOOSE p \in Named(T, NS, o.name) : TRUE) /\ O # RemoveService(T, o.name).st
            -> "RemoveServiceLeavesPeerPort"             \* the port of a peered service facing the removed one stays
      [] o.op = "RemoveNode" /\ out = "ok" /\ Named(T, NN, o.name) \cap ViewNodes(T) # {}
         /\ (LET n == CHOOSE p \in Named(T, NN, o.name) \cap ViewNodes(T) : TRUE
             IN  O = RemoveNodeDeep(DisconnectAll(T, NodeIfs(T, n)), n)) /\ O # RemoveNode(T, o.name).st
            -> "RemovalLeavesSubInterfacePeerPort"       \* ports facing the node's SUB-interfaces are not disconnected
      [] o.op = "RemoveFacility" /\ out = "ok" /\ Cardinality(Named(T, NN, o.name)) = 1
         /\ (LET n == CHOOSE p \in Named(T, NN, o.name) : TRUE
             IN  IsFacility(T, n) /\ O = RemoveNodeDeep(DisconnectAll(T, NodeIfs(T, n)), n)) /\ O # RemoveFacility(T, o.name).st
            -> "RemovalLeavesSubInterfacePeerPort"
      [] o.op = "RemoveComponent" /\ out = "ok" /\ Has(T, o.n) /\ (\E c \in KidsOf(T, o.n, CO) : T.el[c].name = o.name)
         /\ (LET c == CHOOSE x \in KidsOf(T, o.n, CO) : T.el[x].name = o.name
             IN  O = RemoveComp(DisconnectAll(T, DirectIfs(T, c)), c)) /\ O # RemoveComponent(T, o.n, o.name).st
            -> "RemovalLeavesSubInterfacePeerPort"
      [] o.op = "RemoveSubInterface" /\ out = "ok" /\ Has(T, o.i) /\ (\E q \in KidsOf(T, o.i, CP) : T.el[q].name = o.name)
         /\ O = RemoveCP(T, CHOOSE q \in KidsOf(T, o.i, CP) : T.el[q].name = o.name, FALSE)
         /\ O # RemoveSubInterface(T, o.i, o.name).st
            -> "RemovalLeavesSubInterfacePeerPort"
      [] o.op = "Unpeer" /\ out = "ok" /\ Has(T, o.a) /\ Has(T, o.b) /\ FacingPorts(T, o.a, o.b) = {}
            -> "UnpeerOfServicesThatDoNotPeer"           \* removes whatever lies on a shortest path between them
      [] o.op = "Connect" /\ out = "ok" /\ Has(T, o.s) /\ NameClash(T, o.s, o.i)
            -> "ServicePortNameCollision"                \* "<node>-<iface>" is not unique when sub-interfaces share names
      [] o.op = "AddService" /\ out = "ok" /\ AddService(T, o.name, o.nstype, o.ifs, o.site, Fn(o.rp)).out = TErr
         /\ \/ \E k \in 1..Len(o.ifs) : \E j \in 1..(k - 1) : Has(T, o.ifs[k]) /\ Has(T, o.ifs[j]) /\ o.ifs[k] # o.ifs[j]
                   /\ OwnerNode(T, o.ifs[k]) # "" /\ OwnerNode(T, o.ifs[j]) # ""
                   /\ T.el[OwnerNode(T, o.ifs[k])].name \o "-" \o T.el[o.ifs[k]].name
                          = T.el[OwnerNode(T, o.ifs[j])].name \o "-" \o T.el[o.ifs[j]].name
            \* ... or with the link an EARLIER connection (of another service) made for a same-named sub-interface
            \/ \E k \in 1..Len(o.ifs) : Has(T, o.ifs[k]) /\ OwnerNode(T, o.ifs[k]) # "" /\ Peers(T, o.ifs[k]) = {}
                   /\ Has(T, LinkPath(T.el[OwnerNode(T, o.ifs[k])].name \o "-" \o T.el[o.ifs[k]].name \o "-link"))
            -> "ServicePortNameCollision"
      \* ... the call fails all the same, further down its interface list, with the outcome class met there
      [] o.op = "AddService" /\ out # "ok" /\ O = T /\ ValidName(o.name) /\ Named(T, NS, o.name) = {}
         /\ AddService(T, o.name, o.nstype, o.ifs, o.site, Fn(o.rp)).out = TErr /\ out # TErr
         /\ out = FailsAsImpl([T EXCEPT !.el = Upd(T.el, SvcPath(o.name), SvcEl(o.name, o.nstype, o.site, Fn(o.rp)))], SvcPath(o.name), o.nstype, o.ifs)
            -> "ServicePortNameCollision"
      [] o.op = "Validate" /\ out = "ok" /\ Valid(T) /\ O # Inferred(T)
         /\ DOMAIN O.el = DOMAIN T.el /\ O.conn = T.conn
         /\ \A p \in DOMAIN T.el : O.el[p] = Inferred(T).el[p]
                \/ (O.el[p] = T.el[p] /\ Cls(T, p) = NS /\ \E q \in Services(T) \ {p} : T.el[q].name = T.el[p].name)
            -> "ServicesViewKeyedByName"                  \* topology.network_services is keyed by name: same-named
                                                         \* services of different nodes hide each other (and are not validated)
      [] OTHER -> ""

\* a validation that fails may already have recorded the inferred site on services it had accepted before it met
\* the offending one (the statement only speaks about successful validations)
ValidateFailAdmissible(T, O) ==
    /\ DOMAIN O.el = DOMAIN T.el /\ O.conn = T.conn
    /\ \A p \in DOMAIN T.el : O.el[p] = T.el[p] \/ O.el[p] = Inferred(T).el[p]

\* ------------------------------------------------------------------ authorization / accounting attributes (C11)
\* (fim/authz/attribute_collector.py, fim/logging/log_collector.py) - declarative: sets and bags, hence independent
\* of the order in which nodes and services were created
Bag(S, f(_)) == [v \in {f(x) : x \in S} |-> Cardinality({x \in S : f(x) = v})]
CapTok(T, p, fld) == IF "Capacities" \in DOMAIN T.el[p].rp /\ fld \in DOMAIN T.el[p].rp["Capacities"] THEN T.el[p].rp["Capacities"][fld] ELSE "i:0"
HasCaps(T, p) == "Capacities" \in DOMAIN T.el[p].rp
\* labels.local_name of the service-side peers of the slice's node interfaces ("ports that are in the slice")
InSlicePorts(T) ==
    {T.el[q].rp["Labels"]["local_name"] :
        q \in {x \in UNION {Peers(T, i) : i \in UNION {NodeIfs(T, n) : n \in ViewNodes(T)}} :
                  "Labels" \in DOMAIN T.el[x].rp /\ "local_name" \in DOMAIN T.el[x].rp["Labels"]}}
SvcSiteOrUnknown(T, s) == IF SiteOf(T, s) = "" THEN "UNKNOWN-SITE" ELSE SiteOf(T, s)
Attrs(T) ==
    LET ns == ViewNodes(T) ss == Services(T) IN
    [rtype |-> IF \E n \in ns : T.el[n].type = "Switch" THEN "switch-p4" ELSE "sliver",
     sites |-> {SiteOf(T, x) : x \in {y \in ns \cup ss : SiteOf(T, y) # ""}},
     cpu  |-> Bag({n \in ns : HasCaps(T, n)}, LAMBDA n : CapTok(T, n, "core")),
     ram  |-> Bag({n \in ns : HasCaps(T, n)}, LAMBDA n : CapTok(T, n, "ram")),
     disk |-> Bag({n \in ns : HasCaps(T, n)}, LAMBDA n : CapTok(T, n, "disk")),
     comps |-> Bag(UNION {KidsOf(T, n, CO) : n \in ns}, LAMBDA c : T.el[c].type),
     bw   |-> Bag({s \in ss : HasCaps(T, s)}, LAMBDA s : CapTok(T, s, "bw")),
     facilities |-> NamesOf(T, {p \in Nodes(T) : IsFacility(T, p)}),
     v4ext |-> {SvcSiteOrUnknown(T, s) : s \in {x \in ss : T.el[x].type = "FABNetv4Ext"}},
     v6ext |-> {SvcSiteOrUnknown(T, s) : s \in {x \in ss : T.el[x].type = "FABNetv6Ext"}},
     \* a port-mirror service needs its site authorised unless the mirrored port is a port of this slice
     mirror |-> {SvcSiteOrUnknown(T, s) : s \in {x \in ss : T.el[x].type = "PortMirror" /\
                     ~("MirrorPort" \in DOMAIN T.el[x].sp /\ ("s:" \o T.el[x].sp["MirrorPort"]) \in InSlicePorts(T))}}]
IntOfTok(t) == CHOOSE n \in 0..512 : IntTok(n) = t
RECURSIVE SumCores(_, _)
SumCores(T, S) == IF S = {} THEN 0 ELSE LET n == CHOOSE x \in S : TRUE IN IntOfTok(CapTok(T, n, "core")) + SumCores(T, S \ {n})
Tally(T) ==
    LET ns == ViewNodes(T) vms == {n \in ns : T.el[n].type = "VM"} IN
    [vm_count |-> Cardinality(vms),
     core_count |-> SumCores(T, {n \in vms : HasCaps(T, n)}),
     p4_count |-> Cardinality({n \in ns : T.el[n].type = "Switch"}),
     components |-> Bag(UNION {KidsOf(T, n, CO) : n \in ns}, LAMBDA c : T.el[c].type),
     services |-> Bag(Services(T), LAMBDA s : T.el[s].type \o ":" \o CapTok(T, s, "bw")),
     sites |-> {SiteOf(T, x) : x \in {y \in ns \cup Services(T) : SiteOf(T, y) # ""}},
     facilities |-> NamesOf(T, {p \in Nodes(T) : IsFacility(T, p)})]

\* ------------------------------------------------------------------ dispatch
\* operations performed THROUGH an element handle: afterwards that handle must report the same interfaces as a fresh
\* lookup (C08) - the recorder returns, for each handle involved, its cached list and a fresh one
HandleArgs(o) == CASE o.op \in {"Connect", "Disconnect", "AddInterface"} -> <<o.s>>
                   [] o.op \in {"Peer", "Unpeer"} -> <<o.a, o.b>>
                   [] o.op \in {"AddSubInterface", "RemoveSubInterface"} -> <<o.i>>
                   [] OTHER -> <<>>
WithHandles(o, r) ==
    IF r.out # "ok" \/ HandleArgs(o) = <<>> THEN r
    ELSE [r EXCEPT !.res = [k |-> "handles",
                            hs |-> [j \in 1..Len(HandleArgs(o)) |->
                                      IF Has(r.st, HandleArgs(o)[j]) THEN NamesOf(r.st, KidsOf(r.st, HandleArgs(o)[j], CP)) ELSE {}]]]
ApplyRaw(T, o) ==
    CASE o.op = "AddNode"        -> AddNode(T, o.name, o.site, o.ntype, Fn(o.rp), IF "cid" \in DOMAIN o THEN o.cid ELSE "")
      [] o.op = "RemoveNode"     -> RemoveNode(T, o.name)
      [] o.op = "AddComponent"   -> AddComponent(T, o.n, o.name, o.model, IF "ifcid" \in DOMAIN o THEN o.ifcid ELSE "")
      [] o.op = "AddStorage"     -> AddStorage(T, o.n, o.name)
      [] o.op = "RemoveComponent" -> RemoveComponent(T, o.n, o.name)
      [] o.op = "AddService"     -> AddService(T, o.name, o.nstype, o.ifs, o.site, Fn(o.rp))
      [] o.op = "RemoveService"  -> RemoveService(T, o.name)
      [] o.op = "ConnectViaStale" -> ConnectViaStale(T, o.i)
      [] o.op = "AddPortMirror"  -> AddPortMirror(T, o.name, o.from, o.to)
      [] o.op = "Collect"        -> R(T, "ok", [k |-> "attrs", v |-> Attrs(T)])
      [] o.op = "CollectASM"     -> R(T, "ok", [k |-> "attrs", v |-> Attrs(T)])
      \* from the serialised model: it is rebuilt under the same graph id and validated first, so the stored model ends up
      \* validated too (sites inferred) - modelled as the code does it, the property does not speak about it
      [] o.op = "TallyASM"       -> IF Valid(T) THEN R(Inferred(T), "ok", [k |-> "tally", v |-> Tally(Inferred(T))]) ELSE Fail(T, TErr)
      [] o.op = "Tally"          -> R(T, "ok", [k |-> "tally", v |-> Tally(T)])
      [] o.op = "Connect"        -> Connect(T, o.s, o.i)
      [] o.op = "Disconnect"     -> Disconnect(T, o.s, o.i)
      [] o.op = "AddFacility"    -> AddFacility(T, o.name, o.site, Fn(o.rp), IF "ifs" \in DOMAIN o THEN o.ifs ELSE <<>>)
      [] o.op = "RemoveFacility" -> RemoveFacility(T, o.name)
      [] o.op = "AddSwitch"      -> AddSwitch(T, o.name, o.site, o.nports)
      [] o.op = "RemoveSwitch"   -> RemoveSwitch(T, o.name)
      [] o.op = "Peer"           -> Peer(T, o.a, o.b)
      [] o.op = "Unpeer"         -> Unpeer(T, o.a, o.b)
      [] o.op = "AddSubInterface" -> AddSubInterface(T, o.i, o.name, o.vlan)
      [] o.op = "RemoveSubInterface" -> RemoveSubInterface(T, o.i, o.name)
      [] o.op = "AddLink"        -> AddLink(T, o.name, o.ltype, o.ifs)
      [] o.op = "RemoveLink"     -> RemoveLink(T, o.name)
      [] o.op = "AddNodeService" -> AddNodeService(T, o.n, o.name, o.nstype, IF "cid" \in DOMAIN o THEN o.cid ELSE "")
      [] o.op = "RemoveNodeService" -> RemoveNodeService(T, o.n, o.name)
      [] o.op = "AddInterface"   -> AddInterface(T, o.s, o.name, o.itype)
      [] o.op = "Rename"         -> Rename(T, o.p, o.new)
      [] o.op = "SetProp"        -> SetProp(T, o.p, o.kind, o.pname, IF o.kind = "sp" THEN o.val ELSE Fn(o.val))
      [] o.op = "SetProps"       -> SetProps(T, o.p, o.items, o.bad)
      [] o.op = "UnsetProp"      -> UnsetProp(T, o.p, o.kind, o.pname)
      [] o.op = "Views"          -> Views(T)
      [] o.op = "HandleIfs"      -> HandleIfs(T, o.p)
      [] o.op = "Navigate"       -> Navigate(T, o.p)
      [] o.op = "Validate"       -> Validate(T)
      \* the live constraint tables must equal the pinned ones (a silent edit of the tables is reported as such)
      [] o.op = "ConstraintTables" -> R(T, "ok", [k |-> "tables", svc |-> ServiceConstraints, node |-> NodeConstraints, link |-> LinkLayer])

\* a creating call that is otherwise fine but carries an invalid property (an unknown property name, or a value of the
\* wrong type) fails as a whole: nothing of what it would have created remains
BadProp(o) == IF "bad" \in DOMAIN o THEN o.bad ELSE "none"
ApplyChecked(T, o) ==
    \* (a service's own properties are set when it is created, before its interfaces are connected one by one)
    LET r == IF o.op = "AddService" /\ BadProp(o) # "none" THEN AddService(T, o.name, o.nstype, <<>>, o.site, Fn(o.rp)) ELSE ApplyRaw(T, o) IN
    IF BadProp(o) = "none" \/ r.out # "ok" THEN r
    ELSE Fail(T, IF BadProp(o) = "unknown" THEN "AttributeError" ELSE "AssertionError")
Apply(T, o) == WithHandles(o, ApplyChecked(T, o))

\* ------------------------------------------------------------------ the published graph rules (C07)
\* transcribed from fim/graph/data/graph_validation_rules.json and the containment structure
ClassVocab == {NN, CO, NS, CP, LK}
HasIdClassTypeName(T) == \A p \in El(T) : T.el[p].cls \in ClassVocab /\ T.el[p].type # "" /\ T.el[p].name # ""
ComponentHasOneNode(T) == \A p \in El(T) : Cls(T, p) = CO => Has(T, T.el[p].par) /\ Cls(T, T.el[p].par) = NN
InterfaceHasOneOwner(T) == \A p \in El(T) : Cls(T, p) = CP => Has(T, T.el[p].par) /\ Cls(T, T.el[p].par) \in {NS, CP}
ServiceOwnerOK(T) == \A p \in El(T) : Cls(T, p) = NS => (T.el[p].par = "" \/ (Has(T, T.el[p].par) /\ Cls(T, T.el[p].par) \in {NN, CO}))
LinksJoinOnlyInterfaces(T) == \A c \in T.conn : Has(T, c[1]) /\ Cls(T, c[1]) = LK /\ Has(T, c[2]) /\ Cls(T, c[2]) = CP
ServicePortHasOnePeer(T) == \A p \in El(T) : (Cls(T, p) = CP /\ T.el[p].type = "ServicePort") => Cardinality(Peers(T, p)) = 1
NamesUniqueInScope(T) ==
    /\ \A p, q \in El(T) : (p # q /\ T.el[p].par = T.el[q].par /\ T.el[p].par # "" /\ Cls(T, p) = Cls(T, q)) => T.el[p].name # T.el[q].name
    /\ \A p, q \in El(T) : (p # q /\ T.el[p].par = "" /\ T.el[q].par = "" /\ Cls(T, p) = Cls(T, q)) => T.el[p].name # T.el[q].name
NoDanglingLink(T) == \A l \in Links(T) : LinkEnds(T, l) # {}
GraphRules(T) == /\ HasIdClassTypeName(T) /\ ComponentHasOneNode(T) /\ InterfaceHasOneOwner(T) /\ ServiceOwnerOK(T)
                 /\ LinksJoinOnlyInterfaces(T) /\ ServicePortHasOnePeer(T) /\ NamesUniqueInScope(T)
RuleViolated(T) ==
    IF ~HasIdClassTypeName(T) THEN "HasIdClassTypeName" ELSE IF ~ComponentHasOneNode(T) THEN "ComponentHasOneNode"
    ELSE IF ~InterfaceHasOneOwner(T) THEN "InterfaceHasOneOwner" ELSE IF ~ServiceOwnerOK(T) THEN "ServiceOwnerOK"
    ELSE IF ~LinksJoinOnlyInterfaces(T) THEN "LinksJoinOnlyInterfaces" ELSE IF ~ServicePortHasOnePeer(T) THEN "ServicePortHasOnePeer"
    ELSE IF ~NamesUniqueInScope(T) THEN "NamesUniqueInScope" ELSE ""
=============================================================================
