SPECIFICATION Spec
CONSTANTS
  GIDS = {"g1", "g2"}
  NIDS = {"a", "b"}
  CLS = {"K1", "K2"}
  RELS = {"r1", "r2"}
  MaxDepth = 4
  WithQueries = TRUE
  WithMerge = TRUE
  Profile = "full"
  Seed = "empty"
VIEW View
CONSTRAINT Bound
ACTION_CONSTRAINT LogStep
CHECK_DEADLOCK FALSE
