---------------------------- MODULE MC_FimADM ----------------------------
EXTENDS FimADM, Json
CONSTANTS OptSet      \* "small" | "full"
VARIABLES st, lastop, path, chg
vars == <<st, lastop, path, chg>>

\* a site fragment next to a network fragment:
\*  w (worker) -has- c (NIC) -has- cs (service) -connects- cp1 -connects- l1 (link) -connects- cp2 -connects- ss (service) -has- sw (switch)
\*  sw's service also has a trunk port tp -connects- l2 -connects- fp (facility port) -connects- fs (service) -has- fac
Shape ==
    [w |-> "NetworkNode", c |-> "Component", cs |-> "NetworkService", cp1 |-> "ConnectionPoint", l1 |-> "Link",
     cp2 |-> "ConnectionPoint", ss |-> "NetworkService", sw |-> "NetworkNode", tp |-> "ConnectionPoint", l2 |-> "Link",
     fp |-> "ConnectionPoint", fs |-> "NetworkService", fac |-> "NetworkNode", gpu |-> "Component"]
Edges == {[ends |-> {"w", "c"}, rel |-> "has"], [ends |-> {"c", "cs"}, rel |-> "has"], [ends |-> {"cs", "cp1"}, rel |-> "connects"],
          [ends |-> {"cp1", "l1"}, rel |-> "connects"], [ends |-> {"l1", "cp2"}, rel |-> "connects"], [ends |-> {"ss", "cp2"}, rel |-> "connects"],
          [ends |-> {"sw", "ss"}, rel |-> "has"], [ends |-> {"ss", "tp"}, rel |-> "connects"], [ends |-> {"tp", "l2"}, rel |-> "connects"],
          [ends |-> {"l2", "fp"}, rel |-> "connects"], [ends |-> {"fs", "fp"}, rel |-> "connects"], [ends |-> {"fac", "fs"}, rel |-> "has"],
          [ends |-> {"w", "gpu"}, rel |-> "has"]}
\* delegation options of one element
Opt == [none |-> <<>>,
        both1 |-> [cap |-> [d1 |-> "c1"], lab |-> [d1 |-> "l1"]],
        cap1 |-> [cap |-> [d1 |-> "c1"]],
        lab2 |-> [lab |-> [d2 |-> "l2"]],
        split |-> [cap |-> [d1 |-> "c1", d2 |-> "c2"], lab |-> [d2 |-> "l2"]],
        pool3 |-> [cap |-> [d3 |-> "pooldef"], lab |-> [d1 |-> "l1"]]]
Options == IF OptSet = "small" THEN {"none", "both1", "lab2"} ELSE DOMAIN Opt
Varied == {"w", "c", "cp1", "cp2", "sw", "fp"}
\* "full": every option on every varied element, but at most three elements away from the small option set at a time
\* (all six at once would be 6^6 x 3 models - more than memory holds, and nothing in the code couples more than an
\* interface, its peer, their services and owners)
Assignments == IF OptSet = "small" THEN [Varied -> Options]
               ELSE {a \in [Varied -> Options] : Cardinality({x \in Varied : a[x] \notin {"none", "both1", "lab2"}}) <= 2
                                                  /\ Cardinality({x \in Varied : a[x] # "none"}) <= 4}
ARMs == {[n |-> [x \in DOMAIN Shape |-> [cls |-> Shape[x], props |-> "props-" \o x, stitch |-> (x \in st2),
                                        deleg |-> IF x \in Varied THEN Opt[a[x]] ELSE IF x = "gpu" THEN Opt["cap1"] ELSE <<>>]],
          e |-> Edges] : a \in Assignments, st2 \in {{}, {"cp2"}, {"fp", "fac"}}}

Init == \E arm \in ARMs :
          /\ path = <<[op |-> "LoadARM", arm |-> [n |-> arm.n, e |-> SetToSeq({[ends |-> SetToSeq(ed.ends), rel |-> ed.rel] : ed \in arm.e})]]>>
          /\ st = arm /\ lastop = [op |-> "Init"] /\ chg = FALSE
GrowOp == [op |-> "Grow", x |-> "w9", nd |-> [cls |-> "NetworkNode", props |-> "props-w9", stitch |-> FALSE, deleg |-> Opt["split"]]]
Next == \E o \in {[op |-> "Partition"], [op |-> "PartitionAndRekey"], [op |-> "PartitionAndRekeySame"], [op |-> "PartitionAndRekeyTwice"]}
                  \cup (IF Len(path) = 1 THEN {GrowOp} ELSE {}) :
          LET r == Apply(st, o) IN st' = r.st /\ lastop' = o /\ chg' = (r.st # st) /\ path' = IF r.st # st THEN Append(path, o) ELSE path
Spec == Init /\ [][Next]_vars
View == st
LogStep == PrintT(ToJson([path |-> path, op |-> lastop', chg |-> chg']))
ClausesHold == Clauses(st)
=============================================================================
