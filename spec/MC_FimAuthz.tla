---------------------------- MODULE MC_FimAuthz ----------------------------
(* C11: every slice of the family x every creation order; then collect the authorization attributes from the      *)
(* topology object and from its serialised model, and the accounting tally.                                      *)
EXTENDS FimTopology, Json
CONSTANTS Wide
VARIABLES st, lastop, path, chg
vars == <<st, lastop, path, chg>>

Caps(c, r, d) == [Capacities |-> [core |-> IntTok(c), ram |-> IntTok(r), disk |-> IntTok(d)]]
P(n, c, p) == n \o "/" \o c \o "/" \o n \o "-" \o c \o "-l2ovs/" \o c \o "-" \o p
NB1 == << [op |-> "AddNode", name |-> "n1", site |-> "S1", ntype |-> "VM", rp |-> Caps(2, 8, 10)],
          [op |-> "AddComponent", n |-> "n1", name |-> "c1", model |-> "nic2"],
          [op |-> "AddComponent", n |-> "n1", name |-> "g1", model |-> "gpu"],
          [op |-> "AddComponent", n |-> "n1", name |-> "g2", model |-> "gpu"] >>
NB2(site) == << [op |-> "AddNode", name |-> "n2", site |-> site, ntype |-> "VM", rp |-> Caps(4, 16, 100)],
                [op |-> "AddComponent", n |-> "n2", name |-> "c1", model |-> "nic2"],
                [op |-> "AddComponent", n |-> "n2", name |-> "c2", model |-> "nic2"] >>
NB3 == << [op |-> "AddNode", name |-> "n3", site |-> "S2", ntype |-> "VM", rp |-> <<>>],
          [op |-> "AddComponent", n |-> "n3", name |-> "c1", model |-> "nic1"] >>
SW == << [op |-> "AddSwitch", name |-> "sw", site |-> "S3", nports |-> 2] >>
FB == << [op |-> "AddFacility", name |-> "f1", site |-> "S1", rp |-> <<>>] >>
Svc ==
    [BR  |-> << [op |-> "AddService", name |-> "br", nstype |-> "L2Bridge", ifs |-> <<P("n1", "c1", "p1")>>, site |-> "",
                 rp |-> [Capacities |-> [bw |-> "i:10"]]],
                [op |-> "SetProp", p |-> "svc:br/n1-c1-p1", kind |-> "rp", pname |-> "Labels", val |-> [local_name |-> "s:inport"]] >>,
     PMX |-> << [op |-> "AddPortMirror", name |-> "pmx", from |-> "outside-port", to |-> P("n1", "c1", "p2")] >>,
     PMI |-> << [op |-> "AddPortMirror", name |-> "pmi", from |-> "inport", to |-> P("n2", "c1", "p2")] >>,
     V6  |-> << [op |-> "AddService", name |-> "v6", nstype |-> "FABNetv6Ext", ifs |-> <<P("n2", "c2", "p1")>>, site |-> "", rp |-> <<>>] >>,
     \* (its service-side port carries labels WITHOUT a local name)
     V4  |-> << [op |-> "AddService", name |-> "v4", nstype |-> "FABNetv4Ext", ifs |-> <<P("n2", "c1", "p1")>>, site |-> "", rp |-> <<>>],
                [op |-> "SetProp", p |-> "svc:v4/n2-c1-p1", kind |-> "rp", pname |-> "Labels", val |-> [vlan |-> "s:100"]] >>]
RECURSIVE Flat(_)
Flat(ss) == IF ss = <<>> THEN <<>> ELSE Head(ss) \o Flat(Tail(ss))
Perms(S) == {f \in [1..Cardinality(S) -> S] : \A x \in S : \E i \in DOMAIN f : f[i] = x}
Builds ==
    {Flat(nodeorder) \o Flat([i \in DOMAIN so |-> Svc[so[i]]]) \o <<[op |-> "Validate"]>> :
        nodeorder \in {<<NB1, NB2(s2), FB>> : s2 \in {"S1", "S2"}} \cup {<<NB2(s2), FB, NB1>> : s2 \in {"S1", "S2"}}
                      \cup {<<NB3, SW, NB1, NB2("S1")>>}
                      \cup (IF Wide THEN {<<NB1, NB2("S1"), NB3>>, <<SW, NB2("S2"), NB1, FB>>, <<NB2("S1"), NB1>>} ELSE {}),
        so \in UNION {Perms(sub) : sub \in IF Wide THEN SUBSET DOMAIN Svc ELSE {{"PMX", "PMI"}, {"BR", "PMX", "PMI"}, {"BR", "PMI", "V4"}, {"V4", "V6", "PMX"}, {"BR"}, {}}}}
RECURSIVE RunAll(_, _, _)
RunAll(T, ops, i) == IF i > Len(ops) THEN T ELSE RunAll(Apply(T, ops[i]).st, ops, i + 1)

\* the same slices BEFORE validate() was ever run (the accounting summary from the serialised model validates by itself)
Unvalidated == {SubSeq(b, 1, Len(b) - 1) : b \in Builds}
Init == \E b \in Builds \cup Unvalidated : path = b /\ st = RunAll(Empty, b, 1) /\ lastop = [op |-> "Init"] /\ chg = FALSE
Next == \E o \in (IF path \in Builds THEN {[op |-> "Collect"], [op |-> "CollectASM"], [op |-> "Tally"], [op |-> "TallyASM"]}
                  ELSE {[op |-> "Tally"], [op |-> "TallyASM"]}) :
          LET r == Apply(st, o) IN st' = r.st /\ lastop' = o /\ chg' = (r.st # st) /\ path' = path
Spec == Init /\ [][Next]_vars
View == <<st, path>>
LogStep == PrintT(ToJson([path |-> path, op |-> lastop', chg |-> chg']))
\* every build of the family is a valid slice (otherwise the collectors would not be reached)
BuildsValid == path \in Builds => Valid(st)
=============================================================================
