---------------------------- MODULE MC_FimCBM ----------------------------
EXTENDS FimCBM, Json
CONSTANTS MaxDepth, FamilySet      \* FamilySet: "few" | "many"
VARIABLES st, lastop, path, chg
vars == <<st, lastop, path, chg>>

\* one aggregate topology; every delegation model is an induced sub-model of it
UE == {{"a1", "s1"}, {"b1", "s1"}, {"b1", "s2"}, {"c1", "s2"}, {"s1", "s2"}, {"a1", "a2"}}
Own == [A |-> {"a1", "a2"}, B |-> {"b1"}, C |-> {"c1"}]
Shared == {"s1", "s2"}
Induced(N) == {ed \in UE : ed \subseteq N}
Props(x) == "props-of-" \o x

\* a family: which shared nodes each model contains, and which model (if any) delegates on each shared node
Model(i, sh, delegOn) ==
    [n |-> [x \in Own[i] \cup sh |->
              [props |-> Props(x),
               deleg |-> IF x \in Own[i] THEN [cap |-> "d-" \o i \o "-" \o x, lab |-> "l-" \o i \o "-" \o x]
                         ELSE IF x \in delegOn THEN [cap |-> "d-" \o i \o "-" \o x] ELSE <<>>]],
     e |-> SetToSeq({SetToSeq(ed) : ed \in Induced(Own[i] \cup sh)})]
Fam(shA, shB, shC, dA, dB, dC, ids) ==
    [i \in ids |-> CASE i = "A" -> Model("A", shA, dA) [] i = "B" -> Model("B", shB, dB) [] i = "C" -> Model("C", shC, dC)]
Families ==
    IF FamilySet = "few" THEN
       { Fam({"s1"}, {"s1", "s2"}, {"s2"}, {}, {"s1"}, {}, {"A", "B", "C"}),          \* chain A-s1-B-s2-C, B speaks for s1
         Fam({"s1", "s2"}, {"s1", "s2"}, {}, {}, {}, {}, {"A", "B"}),                  \* two models sharing an edge s1-s2
         Fam({"s1"}, {"s1"}, {"s1"}, {"s1"}, {"s1"}, {}, {"A", "B", "C"}) }            \* A and B both speak for s1: conflict
    ELSE {Fam(a, b, c, da, db, dc, {"A", "B", "C"}) : a \in SUBSET Shared, b \in SUBSET Shared, c \in {{}, {"s2"}},
                da \in {{}, {"s1"}}, db \in {{}, {"s1"}, {"s2"}}, dc \in {{}}} 

Ops == {[op |-> "Merge", i |-> i] : i \in {"A", "B", "C"}} \cup {[op |-> "Unmerge", i |-> i] : i \in {"A", "B", "C"}}
       \cup {[op |-> "Snapshot", k |-> "k1"], [op |-> "Rollback", k |-> "k1"]}
       \cup {[op |-> "GetDelegations", x |-> x, i |-> i, t |-> t] : x \in {"a1", "b1", "s1", "s2"}, i \in {"A", "B", "C"}, t \in {"cap", "lab"}}
       \cup {[op |-> "Plug"], [op |-> "Unplug"], [op |-> "GetBQM"]}
\* unmerging a model that is not merged, and merging one twice, are outside the interface
Legal(S, o) == CASE o.op = "Unmerge" -> \E x \in DOMAIN S.cbm.n : o.i \in S.cbm.n[x].adms
                 [] o.op = "Merge" -> o.i \in DOMAIN S.adm /\ ~\E x \in DOMAIN S.cbm.n : o.i \in S.cbm.n[x].adms
                 [] o.op = "Rollback" -> o.k \in DOMAIN S.snaps
                 \* a snapshot is a clone: cloning a model without elements is the (recorded) clone-of-missing-graph case
                 [] o.op = "Snapshot" -> DOMAIN S.cbm.n # {}
                 [] o.op = "GetDelegations" -> o.x \in DOMAIN S.cbm.n /\ o.i \in DOMAIN S.adm
                 [] o.op = "GetBQM" -> DOMAIN S.cbm.n # {} \/ S.plug
                 [] OTHER -> TRUE

Init == \E f \in Families :
          /\ path = <<[op |-> "LoadFamily", fam |-> f]>>
          /\ st = Apply(Init0, path[1]).st
          /\ lastop = [op |-> "Init"] /\ chg = FALSE
Next == \E o \in {x \in Ops : Legal(st, x)} :
          LET r == Apply(st, o) IN
            /\ st' = r.st /\ lastop' = o /\ chg' = (r.st # st)
            /\ path' = IF r.st # st THEN Append(path, o) ELSE path
Spec == Init /\ [][Next]_vars
View == st
Bound == TLCGet("level") <= MaxDepth
LogStep == PrintT(ToJson([path |-> path, op |-> lastop', chg |-> chg']))

\* ---------------------------------------------------------------- the laws of C14
Merged(S) == UNION {S.cbm.n[x].adms : x \in DOMAIN S.cbm.n}
RECURSIVE MergeSet(_, _, _)
MergeSet(S, C, M) == IF M = {} THEN C ELSE LET i == CHOOSE x \in M : TRUE IN MergeSet(S, MergeInto(C, S.adm[i]), M \ {i})
\* the combined model is a function of the SET of merged models: order-independence, unmerge = inverse of merge and
\* rollback = restore, all at once
OrderIndependent == NormCBM(st.cbm) = NormCBM(MergeSet(st, EmptyCBM, Merged(st)))
Provenance == ProvenanceExact(st)
SourcesUntouched == [][st'.adm = st.adm]_vars
\* union of elements and connections, shared elements once
IsUnion == /\ DOMAIN st.cbm.n = UNION {DOMAIN st.adm[i].n : i \in Merged(st)}
           /\ st.cbm.e = UNION {st.adm[i].e : i \in Merged(st)}
=============================================================================
