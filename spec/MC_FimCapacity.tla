---------------------------- MODULE MC_FimCapacity ----------------------------
EXTENDS FimCapacity, Json
CONSTANTS MaxDepth, Family      \* Family: "small" | "cube"

VARIABLES st, lastop, path, chg
vars == <<st, lastop, path, chg>>

\* a family of representative vectors: zero, one unit per field, uniform, mixed, and (cube) all of {0,1,2}^3 on core/ram/disk
Unit(f, n) == [g \in {f} |-> n]
Vecs ==
    {<<>>} \cup {Unit(f, 1) : f \in Fields} \cup {Unit(f, 3) : f \in {"core", "bw"}}
    \cup {[f \in Fields |-> 1], [f \in Fields |-> 2]}
    \cup {[core |-> 2, ram |-> 1, disk |-> 3], [core |-> 1, ram |-> 2, unit |-> 1, mtu |-> 3], [cpu |-> 1, burst_size |-> 2, bw |-> 1]}
    \cup (IF Family = "cube" THEN {[core |-> x[1], ram |-> x[2], disk |-> x[3]] : x \in (0..2) \X (0..2) \X (0..2)} ELSE {})

PureOps == {[op |-> n, a |-> a, b |-> b] : n \in {"Add", "Sub", "AddSub", "Gt", "Lt", "Eq", "NegOfDiff", "EncodeDiff", "FreeOf",
                                                                  "ShowAdd", "ShowSub", "ShowLt"},
                                          a \in Vecs, b \in Vecs}
           \cup {[op |-> "Positive", a |-> a, b |-> b, fields |-> fs] : a \in Vecs, b \in Vecs,
                       fs \in {<<"core">>, <<"core", "ram", "disk">>, <<"bw", "unit">>}}
LedgerVecs == {<<>>, Unit("core", 1), [core |-> 2, ram |-> 1, disk |-> 3], [f \in Fields |-> 1]}
LedgerOps == {[op |-> n, a |-> a] : n \in {"SetTotal", "Allocate", "Release", "CanFit"}, a \in LedgerVecs}
             \cup {[op |-> "ShowLedger"]}

Init == st = EmptyLedger /\ lastop = [op |-> "Init"] /\ path = <<>> /\ chg = FALSE
Next == \E o \in (IF path = <<>> THEN PureOps ELSE {}) \cup LedgerOps :
          LET r == Apply(st, o) IN
            /\ st' = r.st /\ lastop' = o /\ chg' = (r.st # st)
            /\ path' = IF r.st # st THEN Append(path, o) ELSE path
Spec == Init /\ [][Next]_vars
View == st
Bound == TLCGet("level") <= MaxDepth
LogStep == PrintT(ToJson([path |-> path, op |-> lastop', chg |-> chg']))

AllLaws == \A a \in Vecs, b \in Vecs : \A c \in LedgerVecs : Laws(Cap(a), Cap(b), Cap(c))
LedgerOK == LedgerInv(st)
=============================================================================
