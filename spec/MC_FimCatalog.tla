---------------------------- MODULE MC_FimCatalog ----------------------------
EXTENDS FimCatalog
CONSTANTS GridMode      \* "pm1": catalogue values +/-1 ; "dense": every integer up to max+1 in core and ram, disk values +/-1,+/-7

VARIABLES st, lastop, path, chg
vars == <<st, lastop, path, chg>>

Vals(d) == {Sizes[n][d] : n \in Names}
Around(S) == {x \in UNION {{v - 1, v, v + 1} : v \in S} : x >= 0}
MaxOf(S) == CHOOSE x \in S : \A y \in S : y <= x
Grid(d) == IF GridMode = "pm1" \/ d = "disk" THEN
               (IF GridMode = "dense" /\ d = "disk" THEN {x \in UNION {{v - 7, v - 1, v, v + 1, v + 7} : v \in Vals(d)} : x >= 0}
                ELSE Around(Vals(d)))
           ELSE 0..(MaxOf(Vals(d)) + 1)

CompArgs ==
    {[op |-> "GenComponent", idx |-> i, via |-> via, name |-> "nic1", parent |-> par, nsid |-> ns, ids |-> ids, labels |-> lab] :
        i \in 1..Len(Components), via \in {"model_type", "type_model"}, par \in {"", "node1"}, ns \in {"", "ns-id-1"},
        ids \in {<<>>, <<"if-A", "if-B">>, <<"if-A">>}, lab \in {"none", "scalar", "list2", "list3"}}
    \cup {[op |-> "GenComponent", idx |-> i, via |-> "also_model", name |-> "gpu1", parent |-> "", nsid |-> "", ids |-> <<>>, labels |-> "none"] :
        i \in {j \in 1..Len(Components) : Len(Components[j].AlsoModels) > 0}}
    \cup {[op |-> "GenComponent", idx |-> 1, via |-> "unknown", name |-> "x1", parent |-> "", nsid |-> "", ids |-> <<>>, labels |-> "none"]}

Ops == {[op |-> "MapInstance", core |-> c, ram |-> r, disk |-> d] : c \in Grid("core"), r \in Grid("ram"), d \in Grid("disk")}
       \cup {[op |-> "InstanceCaps", name |-> n] : n \in Names \cup {"fabric.c3.m3.d3"}}
       \cup {[op |-> "ListInstances"], [op |-> "ModelTypeEnum"]}
       \cup {a \in CompArgs : a.labels = "none" \/ a.ids # <<>> \/ TRUE}

Init == st = "none" /\ lastop = [op |-> "Init"] /\ path = <<>> /\ chg = FALSE
Next == \E o \in Ops : st' = st /\ lastop' = o /\ chg' = FALSE /\ path' = path
Spec == Init /\ [][Next]_vars
View == st
LogStep == PrintT(ToJson([path |-> path, op |-> lastop', chg |-> chg']))

\* design-level sanity of the oracle: every size is an admissible answer to the request for exactly its capacities,
\* and a request nothing satisfies is answered by the largest size
SelfAdmissible == /\ \A n \in Names : Admissible(n, Sizes[n])
                  /\ \A n \in Largest : Admissible(n, [core |-> Sizes[n].core + 1, ram |-> 0, disk |-> 0])
DataSane == NamesAgree /\ Cardinality(Largest) = 1
=============================================================================
