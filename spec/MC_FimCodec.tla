---------------------------- MODULE MC_FimCodec ----------------------------
EXTENDS FimCodec, Json
CONSTANTS MaxDepth, Wide
VARIABLES st, lastop, path, chg
vars == <<st, lastop, path, chg>>

Opts(kind) == CASE kind = "int" -> {"i:0", "i:3"} [] kind = "str" -> {"unset", "s:t1"}
                [] kind = "strlist" -> {"unset", "s:t1", "[s:t1,s:t2]"} [] kind = "float" -> {"unset", "f:0.0", "f:1.5"}
                [] kind = "bool" -> {"b:false", "b:true"}
\* keep only the non-default entries of an assignment (the way a constructor call names only what it sets)
Trim(cls, f) == [x \in {y \in DOMAIN f : f[y] # Default(Schema[cls][y])} |-> f[x]]
Typed(cls, f) == \A x \in DOMAIN f : f[x] \in Opts(Schema[cls][x])
Singles(cls) == UNION {{[x \in {f} |-> v] : v \in Opts(Schema[cls][f]) \ {Default(Schema[cls][f])}} : f \in DOMAIN Schema[cls]}
AllSet(cls) == {[f \in DOMAIN Schema[cls] |-> CHOOSE v \in Opts(Schema[cls][f]) : v # Default(Schema[cls][f])]}
Asgs(cls) == IF Cardinality(DOMAIN Schema[cls]) <= 4
             THEN {Trim(cls, f) : f \in {g \in [DOMAIN Schema[cls] -> UNION {Opts(Schema[cls][x]) : x \in DOMAIN Schema[cls]}] : Typed(cls, g)}}
             ELSE {<<>>} \cup Singles(cls) \cup AllSet(cls)
                  \cup (IF Wide THEN {Over(a, b) : a \in Singles(cls), b \in Singles(cls)} ELSE {})
Kw(cls) == Singles(cls)

SimpleVals ==
    [Tags |-> {"none", "one", "two"}, MeasurementData |-> {"none", "obj", "text", "emptyobj", "list", "zero", "fzero", "false", "emptylist"},
     UserData |-> {"none", "obj", "text", "zero", "false", "emptylist"}, LayoutData |-> {"none", "obj", "text", "zero", "emptylist"}, Gateway |-> {"v4", "v6", "v4mac", "v6mac"}, PathInfo |-> {"path", "asym", "graph"},
     ERO |-> {"path_strict", "path_loose", "graph_strict"}, Label |-> {"plain", "colon"}, Capacity |-> {"plain"},
     LocationTuple |-> {"plain", "colon"}, AllocationConstraint |-> {"plain"}]

Pure == UNION {{[op |-> "RoundTrip", cls |-> c, asg |-> a] : a \in Asgs(c)} : c \in Classes}
   \cup UNION {{[op |-> "Update", cls |-> c, asg |-> a, kw |-> k] : a \in ({<<>>} \cup Singles(c) \cup AllSet(c)), k \in Kw(c)} : c \in Classes}
   \cup UNION {{[op |-> "DecodeExtra", cls |-> c, asg |-> a, extra |-> e] : a \in ({<<>>} \cup AllSet(c) \cup Singles(c)), e \in {"same", "same_first", "foreign"}} : c \in Classes}
   \cup UNION {{[op |-> "SimpleRoundTrip", cls |-> c, val |-> v] : v \in SimpleVals[c]} : c \in DOMAIN SimpleVals}
MaintOps == {[op |-> "MNew"], [op |-> "MFinalize"], [op |-> "MToJson"], [op |-> "MIter"], [op |-> "MReload"], [op |-> "MCopy"]}
       \cup {[op |-> n, name |-> x, state |-> s] : n \in {"MAdd"}, x \in {"w1", "w2"}, s \in {"Maint", "PreMaint"}}
       \cup {[op |-> n, name |-> x] : n \in {"MRem", "MPop"}, x \in {"w1", "w2"}}
       \cup {[op |-> "MCopyEdit", add |-> a, rem |-> r] : a \in {"w1", "zz"}, r \in {"w2", "none"}}

Init == st = EmptyMaint /\ lastop = [op |-> "Init"] /\ path = <<>> /\ chg = FALSE
Next == \E o \in (IF path = <<>> THEN Pure ELSE {}) \cup MaintOps :
          LET r == Apply(st, o) IN
            /\ st' = r.st /\ lastop' = o /\ chg' = (r.st # st)
            /\ path' = IF r.st # st THEN Append(path, o) ELSE path
Spec == Init /\ [][Next]_vars
View == st
Bound == TLCGet("level") <= MaxDepth
LogStep == PrintT(ToJson([path |-> path, op |-> lastop', chg |-> chg']))

AllLaws == \A c \in Classes : \A a \in Asgs(c) : CodecLaws(c, a)
\* a finalized record cannot be altered: no operation changes the entries of a finalized record
FinalizedFrozen == [][st.final => (st'.entries = st.entries \/ lastop'.op \in {"MNew"})]_vars
=============================================================================
