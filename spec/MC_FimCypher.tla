---------------------------- MODULE MC_FimCypher ----------------------------
(* Laws of the lexer / well-formedness notions, checked by TLC over all strings of a small adversarial alphabet.        *)
EXTENDS FimCypher
CONSTANTS MaxLen
VARIABLES v, b
vars == <<v, b>>
Alphabet == {"a", "'", "\\", "\"", "{", "}", "$", "\n", ")", "/"}
Brackets == {"(", ")", "{", "}", "[", "]"}
RECURSIVE Strings(_, _)
Strings(A, n) == IF n = 0 THEN {""} ELSE LET S == Strings(A, n - 1) IN S \cup {s \o c : s \in S, c \in A}
Stmt(lit) == "MATCH (s:GraphNode {GraphID: $g}) SET s+= { k: '" \o lit \o "' } RETURN properties(s)"
Benign == Stmt("x")

\* reference definition of balancedness: repeatedly delete an adjacent matching pair
RECURSIVE Reduce(_)
Reduce(s) == LET hits == {i \in 1..(Len(s) - 1) : SubSeq(s, i, i + 1) \in {"()", "{}", "[]"}} IN
             IF hits = {} THEN s ELSE LET i == CHOOSE x \in hits : TRUE IN Reduce(SubSeq(s, 1, i - 1) \o SubSeq(s, i + 2, Len(s)))

Init == (v \in Strings(Alphabet, MaxLen) /\ b = "") \/ (v = "" /\ b \in Strings(Brackets, MaxLen + 2))
Next == UNCHANGED vars
Spec == Init /\ [][Next]_vars

\* a correctly escaped literal never changes the statement's shape and never makes it ill-formed
EscapedLiteralIsInert == Shape(Stmt(Esc(v))) = Shape(Benign) /\ Defect(Stmt(Esc(v)), {"g"}) = ""
\* raw inlining of a value with a quote is always noticed (shape change or ill-formedness)
RawQuoteIsNoticed == (\E i \in 1..Len(v) : SubSeq(v, i, i) = "'") /\ ~(\E i \in 1..Len(v) : SubSeq(v, i, i) = "\\")
                        => (Shape(Stmt(v)) # Shape(Benign) \/ Defect(Stmt(v), {"g"}) # "")
\* the lexer's bracket discipline agrees with the reference definition
BalancedAgrees == Balanced(Lex(b)) <=> (Reduce(b) = "")
\* the defect classes of the statements known from the code base
KnownShapes == (v = "" /\ b = "") =>
    /\ Defect("MATCH (n:GraphNode:NetworkNode {GraphID: $graphId, NodeID: $nodeId} RETURN collect(n.NodeID) as nodeids", {"graphId", "nodeId"}) = "unbalanced brackets"
    /\ Defect("MATCH (a:GraphNode {{GraphID: $graphId, NodeID: $nodeA}}) -[r:{kind}]- (b) RETURN r", {"graphId", "nodeA"}) = "unexpanded template fragment"
    /\ Defect("MATCH (a {GraphID: $graphId}) -[r:has]- (b) SET r+= { x: 'y' } RETURN properties(s)", {"graphId"}) = "variable referenced but never bound"
    /\ Defect("MATCH (a {GraphID: $graphId, NodeID: $nodeA}) RETURN a", {"graphId"}) = "parameter named but not supplied"
    /\ Defect("MATCH(n:GraphNode:NetworkNode {GraphID: $graphId }) WHERE  RETURN collect(n.NodeID) as candidate_ids", {"graphId"}) = "empty clause"
    /\ Defect("with 'match(n:GraphNode {GraphID: \"g\\\\\\\\\"}) return n' as query CALL apoc.export.graphml.query(query, null, {stream: true}) YIELD data RETURN data", {}) = ""
    /\ Defect("with 'match(n:GraphNode {GraphID: \"g\\\\\"}) return n' as query CALL apoc.export.graphml.query(query, null, {stream: true}) YIELD data RETURN data", {}) = "nested statement: unterminated literal"
    /\ Defect("MATCH (n) WHERE size([(n) -[:has]- (:Component {GraphID: $graphId, Type: \"SharedNIC\" , }) | n.NodeID])>=1 RETURN n", {"graphId"}) = "dangling separator"
    /\ Defect("MATCH (a:GraphNode {GraphID: $graphId, NodeID: $nodeA}), (z:GraphNode {GraphID: $graphId, NodeID: $nodeZ}) CALL apoc.algo.allSimplePaths(a, z, 'connects|has', $cut_off) YIELD path AS path WITH path, relationships(path) AS rels WHERE size(rels) = size(apoc.coll.toSet(rels)) RETURN [node in nodes(path) | node.NodeID] AS nodeids", {"graphId", "nodeA", "nodeZ", "cut_off"}) = ""
    /\ Defect("match (a:GraphNode {GraphID: $graphId, NodeID: $nodeA}) with a match (z:GraphNode {GraphID: $graphId, NodeID: $nodeZ}), p=shortestPath((a) -[:has*1..]- (z)) with nodes(p) as pathnodes unwind pathnodes as pathnode return collect(pathnode.NodeID) as nodeids", {"graphId", "nodeA", "nodeZ"}) = ""
    /\ Defect("match (n:GraphNode {GraphID: $graphId, NodeID: $nodeId}) call apoc.nodes.delete(n, 10) yield value return *", {"graphId", "nodeId"}) = ""
=============================================================================
