---------------------------- MODULE MC_FimDelegation ----------------------------
EXTENDS FimDelegation, Json
CONSTANTS Big
VARIABLES st, lastop, path, chg
vars == <<st, lastop, path, chg>>

DelIds == {"del1", "del2"}
PoolIds == {"pA", "pB"}
NodesU == IF Big THEN {"n1", "n2", "n3"} ELSE {"n1", "n2"}
Dets == {"d1", "d2"}

Entries == {[fmt |-> "single", pool |-> "", det |-> d] : d \in Dets}
      \cup {[fmt |-> "definition", pool |-> p, det |-> d] : p \in PoolIds, d \in Dets}
      \cup {[fmt |-> "reference", pool |-> p, det |-> ""] : p \in PoolIds}
      \cup {[fmt |-> "reference", pool |-> "pA", det |-> "d1"]}           \* ill-formed: details on a reference
DelegSets == UNION {[D -> Entries] : D \in SUBSET DelIds}

PoolRecs == {[del |-> d, on |-> n, for |-> SetToSeq(f), det |-> x] : d \in DelIds, n \in NodesU, f \in SUBSET NodesU, x \in {"d1"}}
Families == {fam \in UNION {[P -> PoolRecs] : P \in (SUBSET PoolIds) \ {{}}} : \A a \in DOMAIN fam : fam[a].on \notin ToSet(fam[a].for)}

Ops == {[op |-> "DelegRoundTrip", type |-> t, ds |-> ds] : t \in {"CAPACITY", "LABEL"}, ds \in DelegSets}
       \cup {[op |-> n, type |-> t] : n \in {"DetailsOnReference", "MixedType", "DecodeMixedText"}, t \in {"CAPACITY", "LABEL"}}
       \* the duplicate arrives in a second call, in the same call, or after other delegations in the same call
       \cup {[op |-> "AddDuplicateId", type |-> t, how |-> h] : t \in {"CAPACITY", "LABEL"}, h \in {"two_calls", "one_call", "one_call_third"}}
       \cup {[op |-> "PoolsRoundTrip", type |-> t, fam |-> f, single |-> sg] : t \in {"CAPACITY", "LABEL"}, f \in Families, sg \in {"none", "first", "last"}}
       \cup {[op |-> "PoolsViaGraph", type |-> t, fam |-> f, own |-> SetToSeq(w)] : t \in {"CAPACITY", "LABEL"}, f \in Families,
                                                                                w \in {{}, {"n1"}, {"n2"}, {"x9"}, {"n1", "x9"}}}

Init == st = "none" /\ lastop = [op |-> "Init"] /\ path = <<>> /\ chg = FALSE
Next == \E o \in Ops : st' = st /\ lastop' = o /\ chg' = FALSE /\ path' = path
Spec == Init /\ [][Next]_vars
View == st
LogStep == PrintT(ToJson([path |-> path, op |-> lastop', chg |-> chg']))

AllLaws == \A f \in Families : LawHolds([a \in DOMAIN f |-> [del |-> f[a].del, on |-> f[a].on, for |-> ToSet(f[a].for), det |-> f[a].det]])
=============================================================================
