---------------------------- MODULE MC_FimDomains ----------------------------
(* C16 candidate grammar: members of every documented format, boundary values, and near-misses produced by mutation      *)
(* (trailing / leading / embedded newline and blank, trailing junk, dropped character, every selected position replaced  *)
(* by a foreign character or another separator) x scalar / list form x every entry point.                               *)
EXTENDS FimDomains, Json
CONSTANTS Wide
VARIABLES st, lastop, path, chg, part
vars == <<st, lastop, path, chg, part>>

Members ==
    [vlan |-> {"0", "1", "100", "4095", "4096", "4097", "9999", "10000", "00", "0100"},
     inner_vlan |-> {"0", "7", "4096", "4097", "12345"},
     vlan_range |-> {"100-200", "0-4096", "200-100", "100-4097", "4097-5000", "100-100", "100-", "-100", "100--200", "100-200-300", "1-2"},
     asn |-> {"1", "0", "00", "12345", "65000", "4294967295", "4294967296", "04294967295", "4294967300", "99999999999", "000000000001"},
     numa |-> {"-1", "0", "3", "7", "8", "-2", "07", "+7", "10", "-0", "x"},
     mac |-> {"00:11:22:33:44:55", "aA:bB:cC:dD:eE:fF", "00:11:22:33:44", "00:11:22:33:44:55:66", "00-11-22-33-44-55", "0:11:22:33:44:55", "001122334455"},
     bdf |-> {"0000:00:00.0", "0:41:00.1f", "0000:41:00.0", "00000:41:00.0", "0000:41:0.0", "0000:41:00", "0000:41:00:0", "0000:41:00.", "0000.41.00.0"},
     usb_id |-> {"1234:abcd", "1234:ABCD", "123:abcd", "1234:abcde", "1234abcd", "1234:abcd:"},
     ipv4 |-> {"192.168.1.1", "0.0.0.0", "255.255.255.255", "256.1.1.1", "1.1.1.256", "1.1.1", "1.1.1.1.1", "01.02.03.004", "1.1.1.1000", "1..1.1", "1,1,1,1"},
     ipv4_range |-> {"192.168.1.1-192.168.1.10", "192.168.1.1", "192.168.1.1-", "192.168.1.1-192.168.1.300", "192.168.1.1_192.168.1.10"},
     ipv4_subnet |-> {"192.168.1.0/24", "10.0.0.0/8", "10.0.0.0/0", "10.0.0.0/", "10.0.0.0/123", "10.0.0.0", "10.0.0/24", "10.0.0.0\\24"},
     ipv6 |-> {"2001:0db8:85a3:0000:0000:8a2e:0370:7334", "2001:db8::1", "::1", "2001:0db8:85a3:0000:0000:8a2e:0370:7334:1", "2001:db8::1g", "20011:db8::1"},
     ipv6_range |-> {"2001:db8::1-2001:db8::ff", "2001:db8::1", "2001:db8::1-2001:db8::fg"},
     ipv6_subnet |-> {"2001:0db8:85a3:0000:0000/48", "2001:db8::/64", "2001:db8::/", "2001:db8::/128", "2001:db8::"},
     bgp_key |-> {"0xzsEwC7xk6c1fK_h.xHyAdx", "abcde", "abcdef", "abc def", "key+with/ok:chars-_.", "bad;key;value"},
     account_id |-> {"3e2480b2-b4d5-3456-976a-7b0de65a1b62", "ab", "abc", "123456789012", "7e51371e/us-central1/2", "acct id", "acct:id"},
     region |-> {"us-central1", "us", "eu-west-1.a", "us/east", "us east"},
     local_name |-> {"p1", "HundredGigE 0/0/0/1", ""},
     device_name |-> {"any thing; at all"}]
Fields == DOMAIN Members
Foreign == IF Wide THEN {"g", ":", ".", "-", "/", " ", "\n"} ELSE {"g", ":", " "}
Positions(s) == IF Wide \/ Len(s) <= 6 THEN 1..Len(s)
                ELSE {1, 2, Len(s) - 1, Len(s)} \cup {i \in 1..Len(s) : Ch(s, i) \in {":", ".", "-", "/"}}
Mut(s) == {s \o "\n", "\n" \o s, s \o " ", " " \o s, s \o "x", s \o "\n0", ""}
          \cup (IF Len(s) > 0 THEN {SubSeq(s, 1, Len(s) - 1), SubSeq(s, 2, Len(s))} ELSE {})
          \cup {SubSeq(s, 1, i - 1) \o c \o SubSeq(s, i + 1, Len(s)) : i \in Positions(s), c \in Foreign}
Candidates(f) == Members[f] \cup UNION {Mut(m) : m \in {x \in Members[f] : InDomain(f, x)}}
Good(f) == CHOOSE m \in Members[f] : InDomain(f, m)
Forms(f, c) == { [form |-> "scalar", items |-> <<c>>], [form |-> "list", items |-> <<c>>], [form |-> "list", items |-> <<Good(f), c>>],
                 [form |-> "list", items |-> <<c, Good(f)>>] }
FieldOps(f) == {[op |-> e, asg |-> [x \in {f} |-> v]] :
                   e \in {"LNew", "LUpdate", "LFromJson", "ElemSetLabels", "ElemUpdateLabels"}, v \in UNION {Forms(f, c) : c \in Candidates(f)}}

RECURSIVE Rep(_, _)
Rep(c, n) == IF n = 0 THEN "" ELSE IF n = 1 THEN c ELSE LET h == Rep(c, n \div 2) IN IF n % 2 = 0 THEN h \o h ELSE h \o h \o c
TagCands == {"t1", "a", "", "with-dash", "under_score", "has space", "semi;colon", "dot.ted", "t1\n", "\nt1", Rep("a", 255), Rep("a", 256), Rep("a", 254) \o "\n"}
TagOps == {[op |-> e, items |-> it] : e \in {"TNew", "TFromJson", "ElemSetTags"},
                                      it \in {<<c>> : c \in TagCands} \cup {<<"good", c>> : c \in TagCands} \cup {<<>>}}
NameCands(kind) == {"n", "n1", "node-1", "node.1", "node_1", "node 1", "node+1", "node/1", "node:1", "node;1", "node\n", "\nnode", "n1\n", "no\nde",
                    Rep("n", 255), Rep("n", 256), Rep("n", 254) \o "\n", ""}
NameOps == UNION {{[op |-> e, kind |-> k, name |-> c] : e \in {"SetName", "ElemCreate", "ElemSetName", "ElemRename"}, c \in NameCands(k)} : k \in DOMAIN NameChars}
BootOps == {[op |-> e, len |-> n] : e \in {"SetBoot", "ElemSetBoot"}, n \in {0, 1, 100, 1022, 1023, 1024, 1025, 5000}}
BlobLens(c) == {2, 20, BlobMax[c] - 1, BlobMax[c], BlobMax[c] + 1, BlobMax[c] + 100}
BlobOps == UNION {{[op |-> e, cls |-> c, len |-> n, valid |-> v] : e \in {"BlobText", "BlobObject", "ElemSetBlob"},
                      n \in BlobLens(c), v \in {TRUE, FALSE}} : c \in DOMAIN BlobMax}
           \* text of the given length written another way (no blanks / characters an encoder escapes): stored as given
           \cup UNION {{[op |-> e, cls |-> c, len |-> n, valid |-> TRUE, style |-> y] : e \in {"BlobText", "ElemSetBlob"},
                      n \in BlobLens(c) \cup {(2 * BlobMax[c]) \div 3, BlobMax[c] \div 2}, y \in {"compact", "nonascii", "canon"}} : c \in DOMAIN BlobMax}
OtherOps == TagOps \cup NameOps \cup BootOps \cup BlobOps \cup {[op |-> "LRecode"]}
\* the alphabet is explored in independent parts (one per label field + the rest) so that the workers share it
OpsOf(p) == IF p = "other" THEN OtherOps ELSE FieldOps(p)

Seed == << [op |-> "LNew", asg |-> [vlan |-> [form |-> "scalar", items |-> <<"100">>], mac |-> [form |-> "list", items |-> <<"00:11:22:33:44:55">>],
                                     local_name |-> [form |-> "scalar", items |-> <<"p1">>]]] >>
Init == /\ path \in {<<>>, Seed}
        /\ st = (IF path = <<>> THEN Empty ELSE Apply(Empty, Seed[1]).st)
        /\ lastop = [op |-> "Init"] /\ chg = FALSE
        /\ part \in Fields \cup {"other"}
Next == /\ TLCGet("level") <= 1
        /\ \E o \in OpsOf(part) : LET r == Apply(st, o) IN st' = r.st /\ lastop' = o /\ chg' = (r.st # st) /\ path' = path /\ part' = part
Spec == Init /\ [][Next]_vars
View == <<st, lastop, part>>
LogStep == PrintT(ToJson([path |-> path, op |-> lastop', chg |-> chg']))

StoredInDomain == Stored(st) /\ ExamplesInDomain
\* the grammar exercises both sides of every validated field, in every form
TwoSided == lastop.op # "Init" \/ \A f \in Validated : (\E c \in Candidates(f) : InDomain(f, c)) /\ (\E c \in Candidates(f) : ~InDomain(f, c))
=============================================================================
