SPECIFICATION Spec
CONSTANTS
  NN = 3
  CLS = {"K1", "K2"}
  RELS = {"r1", "r2"}
  Loops = FALSE
  FullQueries = TRUE
VIEW View
INVARIANT QueriesSound
CHECK_DEADLOCK FALSE
