---------------------------- MODULE MC_FimQuery ----------------------------
(* C06: exhaustive enumeration of small typed graphs and of all neighbour / path queries on them.            *)
(* Every initial state is one graph (built next to a decoy graph with the same node ids in the same store);  *)
(* the design-level sanity properties of the query operators are checked on every graph, and with            *)
(* Gen_FimQuery.cfg every (graph, query) pair is emitted as a script for replay on the real backends.        *)
EXTENDS FimStore, Json

CONSTANTS NN, CLS, RELS, Loops, FullQueries

AllIds == <<"a", "b", "c", "d", "e">>
Idx == 1..NN
Nodes == {AllIds[i] : i \in Idx}
PairIdx == {ij \in Idx \X Idx : ij[1] < ij[2]}
LoopIdx == IF Loops THEN {<<i, i>> : i \in Idx} ELSE {}
NoEdge == "-"

VARIABLES st, lastop, path, chg
vars == <<st, lastop, path, chg>>

\* deterministic build sequence: decoy graph g2 (same ids, every pair joined by the first relation), then target g1
Seqs(S) == SetToSeq(S)
BuildOps(cl, ed) ==
    LET r0 == CHOOSE r \in RELS : TRUE
        c0 == CHOOSE c \in CLS : TRUE
        decoyN == [i \in Idx |-> [op |-> "AddNode", g |-> "g2", n |-> AllIds[i], cls |-> c0, props |-> <<>>]]
        nodeN  == [i \in Idx |-> [op |-> "AddNode", g |-> "g1", n |-> AllIds[i], cls |-> cl[i], props |-> <<>>]]
        prs    == SetToSeq(PairIdx)
        decoyE == [k \in 1..Len(prs) |-> [op |-> "AddLink", g |-> "g2", a |-> AllIds[prs[k][1]], b |-> AllIds[prs[k][2]],
                                          rel |-> r0, props |-> <<>>]]
        eds    == SetToSeq({ij \in DOMAIN ed : ed[ij] # NoEdge})
        edgeE  == [k \in 1..Len(eds) |-> [op |-> "AddLink", g |-> "g1", a |-> AllIds[eds[k][1]], b |-> AllIds[eds[k][2]],
                                          rel |-> ed[eds[k]], props |-> <<>>]]
    IN  decoyN \o decoyE \o nodeN \o edgeE

RECURSIVE RunAll(_, _, _)
RunAll(S, ops, i) == IF i > Len(ops) THEN S ELSE RunAll(Apply(S, ops[i]).st, ops, i + 1)

Queries ==
         {[op |-> "FirstNbr", g |-> "g1", n |-> n, rel |-> r, cls |-> c] : n \in Nodes, r \in RELS, c \in CLS}
    \cup {[op |-> "SecondNbr", g |-> "g1", n |-> n, r1 |-> r1, c1 |-> c1, r2 |-> r2, c2 |-> c2] :
              n \in (IF FullQueries THEN Nodes ELSE {"a"}), r1 \in RELS, c1 \in CLS, r2 \in RELS, c2 \in CLS}
    \cup {[op |-> "ShortestPath", g |-> "g1", a |-> a, z |-> z, rel |-> r] :
              a \in (IF FullQueries THEN Nodes ELSE {"a"}), z \in Nodes, r \in RELS \cup {""}}
    \cup {[op |-> "PathWithHops", g |-> "g1", a |-> az[1], z |-> az[2], hops |-> h] :
              az \in {x \in (IF FullQueries THEN Nodes ELSE {"a"}) \X Nodes : x[1] # x[2]},
              h \in {<<>>} \cup {<<x>> : x \in Nodes} \cup (IF FullQueries THEN {<<x, y>> : x \in Nodes, y \in Nodes} ELSE {})}
    \cup {[op |-> "FirstNbr", g |-> "g1", n |-> "zz", rel |-> r, cls |-> c] : r \in RELS, c \in CLS}
    \cup {[op |-> "ShortestPath", g |-> "g9", a |-> "a", z |-> "a", rel |-> ""]}

Init == \E cl \in [Idx -> CLS], ed \in [PairIdx \cup LoopIdx -> RELS \cup {NoEdge}] :
          /\ path = BuildOps(cl, ed)
          /\ st = RunAll(EmptyStore, path, 1)
          /\ lastop = [op |-> "Init"]
          /\ chg = FALSE

Next == \E o \in Queries :
          LET r == Apply(st, o) IN
            /\ st' = r.st /\ lastop' = o /\ chg' = (r.st # st) /\ path' = path

Spec == Init /\ [][Next]_vars
View == st
LogStep == PrintT(ToJson([path |-> path, op |-> lastop', chg |-> chg']))

\* ------------------------------------------------------------ design-level sanity of the query operators
IsPath(S, g, rel, p) == \A i \in 1..(Len(p) - 1) : Adj(S, g, rel, p[i], p[i + 1])
NoRepeat(p) == \A i, j \in DOMAIN p : i # j => p[i] # p[j]

QueriesSound ==
    /\ \A a \in Nodes, z \in Nodes, r \in RELS \cup {""} :
          LET ps == ShortestPathSet(st, "g1", r, a, z) IN
            /\ \A p \in ps : p[1] = a /\ p[Len(p)] = z /\ IsPath(st, "g1", r, p) /\ NoRepeat(p)
            /\ \A p \in ps, q \in ps : Len(p) = Len(q)
            \* minimal: no simple path (of the right relation) is shorter
            /\ (r = "" /\ a # z) => \A q \in SimplePaths(st, "g1", a, z) : \A p \in ps : Len(p) <= Len(q)
            \* complete: reachable in the any-relation graph iff a simple path exists
            /\ (r = "" /\ a # z) => ((ps = {}) <=> (SimplePaths(st, "g1", a, z) = {}))
    /\ \A a \in Nodes : \A z \in Nodes \ {a}, h \in Nodes :
          \A p \in HopPathSet(st, "g1", a, z, {h}) :
             p[1] = a /\ p[Len(p)] = z /\ IsPath(st, "g1", "", p) /\ NoRepeat(p) /\ h \in Range(p)
    /\ \A n \in Nodes, r1 \in RELS, c1 \in CLS, r2 \in RELS, c2 \in CLS :
          LET res == SecondNbr(st, "g1", n, r1, c1, r2, c2).res IN
             \A pr \in res.pairs : pr[2] # n /\ pr[1] \in FirstNbrSet(st, "g1", n, r1, c1)
    \* the decoy graph never leaks
    /\ \A n \in Nodes, r \in RELS, c \in CLS : FirstNbrSet(st, "g1", n, r, c) \subseteq Nids(st, "g1")
=============================================================================
