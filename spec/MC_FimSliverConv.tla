---------------------------- MODULE MC_FimSliverConv ----------------------------
(* C02 model checking and behaviour generation.                                                                    *)
(*  Mode "convert": every sliver of the family (containment shapes x property assignments incl. every single        *)
(*                  property on every element) is written into the graph and rebuilt from EVERY nested element, and  *)
(*                  converted to the deep dictionary / JSON form and back.                                           *)
(*  Mode "props":   from populated graphs, every set / set-several / unset / set-to-None / get on every element and  *)
(*                  every settable property (or the Focus subset when deeper).                                       *)
EXTENDS FimSliverConv, Json
CONSTANTS Mode, MaxDepth, Wide, Focus
VARIABLES st, lastop, path, chg
vars == <<st, lastop, path, chg>>

E(p, k, t) == [path |-> p, kind |-> k, type |-> t]
ShN0 == << E("n1", "node", "VM") >>
ShN1 == << E("n1", "node", "VM"), E("n1/c1", "comp", "SmartNIC"), E("n1/c1/s1", "svc", "OVS"), E("n1/c1/s1/p1", "if", "DedicatedPort") >>
ShN2 == << E("n2", "node", "Server"), E("n2/c1", "comp", "SmartNIC"), E("n2/c1/s1", "svc", "OVS"),
           E("n2/c1/s1/p1", "if", "DedicatedPort"), E("n2/c1/s1/p1/u1", "if", "SubInterface"), E("n2/c1/s1/p1/u2", "if", "SubInterface"),
           E("n2/c1/s1/p2", "if", "DedicatedPort"), E("n2/c2", "comp", "GPU"), E("n2/s2", "svc", "OVS"), E("n2/s2/q1", "if", "TrunkPort") >>
ShS1 == << E("s9", "svc", "L2Bridge"), E("s9/p1", "if", "ServicePort"), E("s9/p2", "if", "ServicePort") >>
ShC1 == << E("n1/c3", "comp", "SmartNIC"), E("n1/c3/s1", "svc", "OVS"), E("n1/c3/s1/p1", "if", "DedicatedPort"),
           E("n1/c3/s1/p1/u1", "if", "SubInterface") >>
ShSv == << E("n1/c1/s3", "svc", "OVS"), E("n1/c1/s3/p1", "if", "DedicatedPort"), E("n1/c1/s3/p1/u1", "if", "SubInterface") >>
ShI1 == << E("n1/c1/s1/p3", "if", "DedicatedPort"), E("n1/c1/s1/p3/u1", "if", "SubInterface"), E("n1/c1/s1/p3/u2", "if", "SubInterface") >>
ShL1 == << E("l1", "link", "L2Path") >>
TopShapes == {ShN0, ShN1, ShN2, ShS1}
HostedShapes == {ShC1, ShSv, ShI1, ShL1}

All(kind, v) == [p \in Vocab[kind] |-> IF v \in Tokens(p) THEN v ELSE "v1"]      \* v is "v1" or "v2" here
Other(v) == IF v = "v1" THEN "v2" ELSE "v1"
With(sh, f(_)) == [i \in DOMAIN sh |-> [path |-> sh[i].path, kind |-> sh[i].kind, type |-> sh[i].type, props |-> f(i)]]
Assignments(sh) ==
    {With(sh, LAMBDA i : <<>>), With(sh, LAMBDA i : All(sh[i].kind, "v1")), With(sh, LAMBDA i : All(sh[i].kind, "v2")),
     With(sh, LAMBDA i : All(sh[i].kind, IF i % 2 = 1 THEN "v1" ELSE "v2")),
     With(sh, LAMBDA i : All(sh[i].kind, IF i % 2 = 1 THEN "v2" ELSE "v1"))}
    \cup {With(sh, LAMBDA i : IF i = j THEN [x \in {p} |-> v] ELSE <<>>) :
             j \in DOMAIN sh, p \in UNION {Vocab[k] : k \in Kinds}, v \in IF Wide THEN {"v1", "v2"} ELSE {"v1"}}
Legal(sl) == \A i \in DOMAIN sl : DOMAIN sl[i].props \subseteq Vocab[sl[i].kind] /\ \A p \in DOMAIN sl[i].props : sl[i].props[p] \in Tokens(p)
Family(shapes) == {sl \in UNION {Assignments(sh) : sh \in shapes} : Legal(sl)}
WriteOp(sl) == IF sl[1].kind = "link" THEN [op |-> "Write", sl |-> sl, ifs |-> <<"n1/c1/s1/p1", "s9/p1">>] ELSE [op |-> "Write", sl |-> sl]

\* host graph for the shapes that hang under an existing element
HostOps == << WriteOp(With(ShN1, LAMBDA i : All(ShN1[i].kind, IF i % 2 = 1 THEN "v1" ELSE "v2"))),
              WriteOp(With(ShS1, LAMBDA i : All(ShS1[i].kind, "v1"))) >>
PropSeeds ==
    { << WriteOp(With(ShN2, LAMBDA i : All(ShN2[i].kind, "v1"))), WriteOp(With(ShS1, LAMBDA i : All(ShS1[i].kind, "v2"))),
         [op |-> "Write", sl |-> With(ShL1, LAMBDA i : All("link", "v1")), ifs |-> <<"n2/c1/s1/p2", "s9/p1">>] >>,
      << WriteOp(With(ShN2, LAMBDA i : <<>>)), WriteOp(With(ShS1, LAMBDA i : <<>>)),
         [op |-> "Write", sl |-> With(ShL1, LAMBDA i : <<>>), ifs |-> <<"n2/c1/s1/p2", "s9/p1">>] >> }
RECURSIVE RunAll(_, _, _)
RunAll(T, ops, i) == IF i > Len(ops) THEN T ELSE RunAll(Apply(T, ops[i]).st, ops, i + 1)

FocusProps(kind) == IF Focus THEN Vocab[kind] \cap {"image_ref", "image_type", "stitch_node", "location", "site", "details", "capacities",
                                                     "capacity_allocations", "label_allocations", "labels", "peer_labels", "layer"}
                    ELSE Vocab[kind]
FocusPaths(g) == IF Focus THEN {"n2", "n2/c1", "n2/c1/s1", "n2/c1/s1/p1", "n2/c1/s1/p1/u1", "s9", "l1"} \cap DOMAIN g ELSE DOMAIN g
Several == { [image_ref |-> "v1", image_type |-> "v1"], [image_ref |-> "v2", image_type |-> "v1", site |-> "v2"],
             [capacities |-> "v2", labels |-> "v2", stitch_node |-> "v1"], [details |-> "v0", stitch_node |-> "v0"], [site |-> "v0", details |-> "v2"], [layer |-> "v2", technology |-> "v1"],
             [peer_labels |-> "v2", labels |-> "v1"], [capacity_allocations |-> "v2", label_allocations |-> "v2"] }
PropOps(S) ==
    UNION {
      {[op |-> "SetProp", path |-> q, p |-> p, v |-> v] : p \in FocusProps(S.g[q].kind), v \in {"v0", "v1", "v2"}}
      \cup {[op |-> o, path |-> q, p |-> p] : p \in FocusProps(S.g[q].kind), o \in {"UnsetProp", "SetNone", "GetProp"}}
      \cup {[op |-> "SetProps", path |-> q, asg |-> a] : a \in {b \in Several : DOMAIN b \subseteq Vocab[S.g[q].kind]}}
      : q \in FocusPaths(S.g)}
LegalOp(o) == o.op = "SetProp" => o.v \in Tokens(o.p)

ConvertOps(S) ==
    (IF Len(path) = 0 THEN {WriteOp(sl) : sl \in Family(TopShapes)}
                           \cup {[op |-> o, sl |-> sl] : o \in {"DictRT", "JsonRT"}, sl \in Family(TopShapes \cup HostedShapes)}
     ELSE IF path = HostOps THEN {WriteOp(sl) : sl \in Family(HostedShapes)}
     ELSE {})
    \cup (IF lastop.op = "Write" THEN {[op |-> "Rebuild", path |-> q] : q \in DOMAIN S.g} ELSE {})

Init == /\ path \in (IF Mode = "convert" THEN {<<>>, HostOps} ELSE PropSeeds)
        /\ st = RunAll(Empty, path, 1)
        /\ lastop = [op |-> "Init"] /\ chg = FALSE
Next == /\ TLCGet("level") <= MaxDepth                    \* transitions out of states up to this depth (no boundary blow-up)
        /\ \E o \in (IF Mode = "convert" THEN ConvertOps(st) ELSE {x \in PropOps(st) : LegalOp(x)}) :
           LET r == Apply(st, o) IN
           /\ r.out # "Unmodelled"
           /\ st' = r.st /\ lastop' = o /\ chg' = (r.st # st) /\ path' = Append(path, o)
Spec == Init /\ [][Next]_vars
View == <<st, IF Mode = "convert" THEN path ELSE <<>>, IF lastop.op \in {"Write", "Init"} THEN lastop.op ELSE "x">>
Bound == TLCGet("level") <= MaxDepth
LogStep == PrintT(ToJson([path |-> path, op |-> lastop', chg |-> chg']))

\* ---------------------------------------------------------------- invariants
LawsHold ==
    /\ (lastop.op = "Write" => WriteRebuildLaw(RunAll(Empty, SubSeq(path, 1, Len(path) - 1), 1), lastop))
    /\ (Mode = "props" /\ lastop.op = "Init" => \A q \in FocusPaths(st.g) : \A p \in FocusProps(st.g[q].kind) : \A v \in Tokens(p) : SetGetLaw(st, q, p, v))
\* observers never change the graph
Frame == [][lastop'.op \in {"Rebuild", "DictRT", "JsonRT", "GetProp", "Vocab"} => st' = st]_vars
=============================================================================
