---------------------------- MODULE MC_FimSliverDiff ----------------------------
EXTENDS FimSliverDiff, Json
CONSTANTS MaxDepth
VARIABLES st, lastop, path, chg
vars == <<st, lastop, path, chg>>

Port == [p |-> P0, subs |-> <<>>]
PortWithSub == [p |-> P0, subs |-> [s \in {"v100"} |-> [p |-> [labels |-> "L1", caps |-> "", ud |-> ""]]]]
Bases ==
    { [p |-> P0, comps |-> <<>>, svcs |-> <<>>],                                                   \* a bare node
      [p |-> [labels |-> "L1", caps |-> "C1", ud |-> "U1"],
       comps |-> [c \in {"nic", "gpu"} |-> IF c = "nic" THEN [p |-> P0, smart |-> TRUE, ifs |-> [i \in {"p1", "p2"} |-> IF i = "p1" THEN PortWithSub ELSE Port]]
                                                          ELSE [p |-> [labels |-> "", caps |-> "C1", ud |-> "U1"], smart |-> FALSE, ifs |-> <<>>]],
       svcs |-> [s \in {"ns1"} |-> [p |-> [labels |-> "L1", caps |-> "", ud |-> ""]]]] }

Edits == {[op |-> "AddComp", name |-> n, smart |-> s] : n \in {"nic", "nic2"}, s \in {TRUE}} \cup {[op |-> "AddComp", name |-> "gpu2", smart |-> FALSE]}
    \cup {[op |-> "RemComp", name |-> n] : n \in {"nic", "gpu"}}
    \cup {[op |-> "AddSvc", name |-> n] : n \in {"ns2"}} \cup {[op |-> "RemSvc", name |-> n] : n \in {"ns1"}}
    \cup {[op |-> "AddSub", c |-> "nic", i |-> i, name |-> n] : i \in {"p1", "p2"}, n \in {"v200"}}
    \cup {[op |-> "RemSub", c |-> "nic", i |-> "p1", name |-> "v100"]}
    \cup {[op |-> "SetNode", which |-> w, v |-> v] : <<w, v>> \in {<<"labels", "L2">>, <<"caps", "C2">>, <<"ud", "U2">>, <<"ud", "U1">>, <<"ud", "U1s">>}}
    \cup {[op |-> "SetComp", c |-> c, which |-> w, v |-> v] : c \in {"nic", "gpu"}, <<w, v>> \in {<<"labels", "L2">>, <<"caps", "C2">>, <<"ud", "U1">>, <<"ud", "U1s">>}}
    \cup {[op |-> "SetSvc", s |-> "ns1", which |-> w, v |-> v] : <<w, v>> \in {<<"labels", "L2">>, <<"caps", "C2">>}}
    \cup {[op |-> "SetIf", c |-> "nic", i |-> "p2", which |-> w, v |-> v] : <<w, v>> \in {<<"labels", "L2">>, <<"caps", "C2">>}}
    \cup {[op |-> "SetSub", c |-> "nic", i |-> "p1", name |-> "v100", which |-> "labels", v |-> "L2"]}
Observers == {[op |-> "DiffNode"]} \cup {[op |-> "DiffCompService", c |-> "nic"]}
             \cup {[op |-> "DiffInterface", c |-> "nic", i |-> i] : i \in {"p1", "p2"}}

Init == \E b \in Bases : /\ path = <<[op |-> "Start", base |-> b]>> /\ st = [old |-> b, new |-> b]
                         /\ lastop = [op |-> "Init"] /\ chg = FALSE
Next == \E o \in Edits \cup Observers :
          LET r == Apply(st, o) IN
            /\ st' = r.st /\ lastop' = o /\ chg' = (r.st # st)
            /\ path' = IF r.st # st THEN Append(path, o) ELSE path
Spec == Init /\ [][Next]_vars
View == st
Bound == TLCGet("level") <= MaxDepth
LogStep == PrintT(ToJson([path |-> path, op |-> lastop', chg |-> chg']))
LawsHold == Laws(st)
=============================================================================
