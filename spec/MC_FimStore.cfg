SPECIFICATION Spec
CONSTANTS
  GIDS = {"g1", "g2"}
  NIDS = {"a", "b"}
  CLS = {"K1", "K2"}
  RELS = {"r1", "r2"}
  MaxDepth = 4
  WithQueries = FALSE
  WithMerge = TRUE
  Profile = "full"
  Seed = "empty"
VIEW View
CONSTRAINT Bound
INVARIANT TypeOK
PROPERTY Isolation
PROPERTY CloneFaithful
PROPERTY ClassImmutable
PROPERTY IdentityKept
PROPERTY MergeKeepsEdges
PROPERTY FailureAtomic
CHECK_DEADLOCK FALSE
