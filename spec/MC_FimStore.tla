---------------------------- MODULE MC_FimStore ----------------------------
(* Bounded instance of FimStore: exhaustive model checking of the design-level properties (C04, C05, C06) and, *)
(* with Gen_FimStore.cfg, generation of behaviours that are replayed into the real backends.                  *)
EXTENDS FimStore, Json

CONSTANTS GIDS, NIDS, CLS, RELS, MaxDepth, WithQueries, WithMerge, Profile, Seed

VARIABLES st, lastop, path, chg
vars == <<st, lastop, path, chg>>

\* unordered pairs incl. loops, one representative each (chosen through an arbitrary but fixed enumeration)
Enum == CHOOSE f \in [1..Cardinality(NIDS) -> NIDS] : \A x \in NIDS : \E i \in DOMAIN f : f[i] = x
UPairs == {<<Enum[i], Enum[j]>> : i, j \in 1..Cardinality(NIDS)} \cap {<<Enum[i], Enum[j]>> : <<i, j>> \in {ij \in (1..Cardinality(NIDS)) \X (1..Cardinality(NIDS)) : ij[1] <= ij[2]}}

NodePropsAlts == {<<>>, [Name |-> "s:v1"], [p |-> "s:v1", Type |-> "s:t1"]}
LinkPropsAlts == {<<>>, [p |-> "s:v1"]}
Vals == {"s:v1", "s:v2"}

\* Profile "graphs": the multi-graph alphabet of C04 (whole-graph operations, imports incl. tampered documents)
GraphMutators ==
         {[op |-> "AddNode", g |-> g, n |-> n, cls |-> "K1", props |-> [p |-> "s:v1"]] : g \in GIDS, n \in NIDS}
    \cup {[op |-> "DeleteNode", g |-> g, n |-> n] : g \in GIDS, n \in NIDS}
    \cup {[op |-> "AddLink", g |-> g, a |-> pr[1], b |-> pr[2], rel |-> "r1", props |-> <<>>] : g \in GIDS, pr \in UPairs}
    \cup {[op |-> "UpdateNodesProp", g |-> g, p |-> "p", v |-> "s:v2"] : g \in GIDS}
    \cup {[op |-> "DeleteGraph", g |-> g] : g \in GIDS}
    \cup {[op |-> "DeleteAll"]}
    \cup {[op |-> "Export", g |-> g] : g \in GIDS}
    \cup {[op |-> "Tamper", kind |-> "drop_nodeid", n |-> n, g2 |-> ""] : n \in NIDS}
    \cup {[op |-> "Tamper", kind |-> "set_gid", n |-> n, g2 |-> g] : n \in NIDS, g \in GIDS}
    \cup {[op |-> "Import", entry |-> en, h |-> h] : en \in {"string", "file"}, h \in GIDS}
    \cup {[op |-> "Import", entry |-> en, h |-> ""] : en \in {"string_direct", "file_direct"}}
    \cup {[op |-> "Clone", g |-> g, h |-> h] : g \in GIDS, h \in GIDS}
    \cup (IF WithMerge THEN
            {[op |-> "MergeNodes", g |-> gh[1], n |-> n, h |-> gh[2], pol |-> <<>>] :
                 gh \in {x \in GIDS \X GIDS : x[1] # x[2]}, n \in NIDS}
          ELSE {})
GraphObservers ==
         {[op |-> "ListIds", g |-> g] : g \in GIDS}
    \cup {[op |-> "GraphExists", g |-> g] : g \in GIDS}
    \cup {[op |-> "GetNodeProps", g |-> g, n |-> n] : g \in GIDS, n \in NIDS}

Mutators ==
         {[op |-> "AddNode", g |-> g, n |-> n, cls |-> c, props |-> pp] : g \in GIDS, n \in NIDS, c \in CLS, pp \in NodePropsAlts}
    \cup {[op |-> "DeleteNode", g |-> g, n |-> n] : g \in GIDS, n \in NIDS}
    \cup {[op |-> "AddLink", g |-> g, a |-> pr[1], b |-> pr[2], rel |-> r, props |-> pp] :
              g \in GIDS, pr \in UPairs, r \in RELS, pp \in LinkPropsAlts}
    \cup {[op |-> "UpdateNodeProp", g |-> g, n |-> n, p |-> p, v |-> v] : g \in GIDS, n \in NIDS, p \in {"p", "Name", "Class"}, v \in Vals}
    \cup {[op |-> "UnsetNodeProp", g |-> g, n |-> n, p |-> p] : g \in GIDS, n \in NIDS, p \in {"p", "q"} \cup NoUnset}
    \cup {[op |-> "UpdateNodesProp", g |-> g, p |-> p, v |-> "s:v2"] : g \in GIDS, p \in {"p", "Class"}}
    \cup {[op |-> "UpdateNodeProps", g |-> g, n |-> n, props |-> pp] : g \in GIDS, n \in NIDS,
              pp \in {[p |-> "s:v2", q |-> "s:v1"], [p |-> "s:v1", Class |-> "s:K9"]}}
    \cup {[op |-> "UpdateLinkProp", g |-> g, a |-> pr[1], b |-> pr[2], kind |-> r, p |-> p, v |-> "s:v2"] :
              g \in GIDS, pr \in UPairs, r \in RELS, p \in {"p", "Class"}}
    \cup {[op |-> "UnsetLinkProp", g |-> g, a |-> pr[1], b |-> pr[2], kind |-> r, p |-> p] :
              g \in GIDS, pr \in UPairs, r \in RELS, p \in {"p", "Class"}}
    \cup {[op |-> "UpdateLinkProps", g |-> g, a |-> pr[1], b |-> pr[2], kind |-> r, props |-> pp] :
              g \in GIDS, pr \in UPairs, r \in RELS, pp \in {[p |-> "s:v2", q |-> "s:v1"], [Class |-> "s:r9"]}}
    \cup {[op |-> "DeleteGraph", g |-> g] : g \in GIDS}
    \cup {[op |-> "DeleteAll"]}
    \cup {[op |-> "Export", g |-> g] : g \in GIDS}
    \cup {[op |-> "Import", entry |-> en, h |-> h] : en \in {"string", "file"}, h \in GIDS}
    \cup {[op |-> "Import", entry |-> en, h |-> ""] : en \in {"string_direct", "file_direct"}}
    \cup {[op |-> "Clone", g |-> g, h |-> h] : g \in GIDS, h \in GIDS}
    \cup (IF WithMerge THEN
            {[op |-> "MergeNodes", g |-> gh[1], n |-> n, h |-> gh[2], pol |-> pol] :
                 gh \in {x \in GIDS \X GIDS : x[1] # x[2]}, n \in NIDS,
                 pol \in {<<>>, [p |-> "overwrite", Name |-> "combine"], [p |-> "discard"]}}
          ELSE {})

Observers ==
         {[op |-> "GetNodeProps", g |-> g, n |-> n] : g \in GIDS, n \in NIDS}
    \cup {[op |-> "GetLinkProps", g |-> g, a |-> pr[1], b |-> pr[2]] : g \in GIDS, pr \in UPairs}
    \cup {[op |-> "ListIds", g |-> g] : g \in GIDS}
    \cup {[op |-> "ByClass", g |-> g, cls |-> c] : g \in GIDS, c \in CLS}
    \cup {[op |-> "ByClassType", g |-> g, cls |-> c, t |-> "s:t1"] : g \in GIDS, c \in CLS}
    \cup {[op |-> "NodeExists", g |-> g, n |-> n, cls |-> c] : g \in GIDS, n \in NIDS, c \in CLS}
    \cup {[op |-> "CheckUnique", g |-> g, cls |-> c, name |-> "s:v1"] : g \in GIDS, c \in CLS}
    \cup {[op |-> "GraphExists", g |-> g] : g \in GIDS}
    \cup {[op |-> "FirstNbr", g |-> g, n |-> n, rel |-> r, cls |-> c] : g \in GIDS, n \in NIDS, r \in RELS, c \in CLS}
    \cup {[op |-> "SecondNbr", g |-> g, n |-> n, r1 |-> r1, c1 |-> c1, r2 |-> r2, c2 |-> c2] :
              g \in GIDS, n \in NIDS, r1 \in RELS, c1 \in CLS, r2 \in RELS, c2 \in CLS}
    \cup {[op |-> "ShortestPath", g |-> g, a |-> a, z |-> z, rel |-> r] : g \in GIDS, a \in NIDS, z \in NIDS, r \in RELS \cup {""}}

\* operations offered in state S (observers that need an existing other graph are guarded: outside the documented domain otherwise)
\* the direct import entries require node ids in the document (documented precondition)
Legal(S, o) == ~(o.op = "Import" /\ o.entry \in {"string_direct", "file_direct"} /\ S.doc.noid # {})
Ops(S) == {o \in (IF Profile = "graphs" THEN GraphMutators ELSE Mutators) : Legal(S, o)}
          \cup (IF WithQueries THEN (IF Profile = "graphs" THEN GraphObservers ELSE Observers) ELSE {})
          \cup {[op |-> "FindMatching", g |-> g, h |-> h] : <<g, h>> \in {gh \in GIDS \X GIDS : KeysOf(S, gh[2]) # {}}}

\* Seeded initial stores: every operation of the alphabet is then explored in a populated store, not only near the
\* empty one.  The seed is itself a sequence of public operations (so it is replayed like any other prefix).
N(g, n, c, pp)     == [op |-> "AddNode", g |-> g, n |-> n, cls |-> c, props |-> pp]
L(g, a, b, r, pp)  == [op |-> "AddLink", g |-> g, a |-> a, b |-> b, rel |-> r, props |-> pp]
SeedOps ==
    CASE Seed = "empty" -> <<>>
      [] Seed = "pair"  -> << N("g1", "a", "K1", [p |-> "s:v1", Name |-> "s:v1", Type |-> "s:t1"]), N("g1", "b", "K2", <<>>),
                              L("g1", "a", "b", "r1", [p |-> "s:v1"]), N("g2", "a", "K1", [p |-> "s:v2"]) >>
      [] Seed = "tri"   -> << N("g1", "a", "K1", [Name |-> "s:v1"]), N("g1", "b", "K2", [p |-> "s:v1"]),
                              L("g1", "a", "b", "r1", <<>>), L("g1", "a", "a", "r2", <<>>),
                              N("g2", "a", "K2", [p |-> "s:v2", Name |-> "s:v2"]), N("g2", "b", "K1", <<>>),
                              L("g2", "a", "b", "r2", [p |-> "s:v2"]) >>
RECURSIVE RunAll(_, _, _)
RunAll(S, ops, i) == IF i > Len(ops) THEN S ELSE RunAll(Apply(S, ops[i]).st, ops, i + 1)

Init == st = RunAll(EmptyStore, SeedOps, 1) /\ lastop = [op |-> "Init"] /\ path = SeedOps /\ chg = FALSE

Next == \E o \in Ops(st) :
          LET r == Apply(st, o) IN
            /\ st' = r.st
            /\ lastop' = o
            /\ chg' = (r.st # st)
            /\ path' = IF r.st # st THEN Append(path, o) ELSE path

Spec == Init /\ [][Next]_vars

View == st
Bound == TLCGet("level") <= MaxDepth
\* behaviour generation: one JSON line per explored transition (path to the source state, operation, does it change the state)
LogStep == PrintT(ToJson([path |-> path, op |-> lastop', chg |-> chg']))

\* ---------------------------------------------------------------- design-level properties
TypeOK == /\ EdgesAnchored(st)
          /\ \A k \in Keys(st) : k[1] \in GIDS /\ k[2] \in NIDS

\* C04: an operation changes only the graphs it is addressed to
Isolation == [][FrameOK(st, lastop', st')]_vars

\* C04: a clone has the content of its source under the new id
Rehomed(c, h) == [n |-> [x \in {k[2] : k \in DOMAIN c.n} |-> c.n[CHOOSE k \in DOMAIN c.n : k[2] = x]],
                  e |-> [ek \in {{k[2] : k \in kk} : kk \in DOMAIN c.e} |-> c.e[CHOOSE kk \in DOMAIN c.e : {k[2] : k \in kk} = ek]]]
CloneFaithful == [][(lastop'.op = "Clone" /\ KeysOf(st, lastop'.g) # {})
                      => Rehomed(Content(st', lastop'.h), "") = Rehomed(Content(st, lastop'.g), "")]_vars

\* C05: the class of a surviving node never changes except by replacing its whole graph (import / clone / delete)
ClassImmutable == [][lastop'.op \notin {"Import", "Clone", "DeleteGraph", "DeleteAll", "DeleteNode", "AddNode", "MergeNodes"}
                        => \A k \in Keys(st) : k \in Keys(st') /\ st'.n[k].cls = st.n[k].cls]_vars

\* C05: identity properties are never removed by an unset / update call
IdentityKept == [][lastop'.op \in {"UnsetNodeProp", "UpdateNodeProp", "UpdateNodeProps", "UpdateNodesProp"}
                      => \A k \in Keys(st) : k \in Keys(st') /\
                            (DOMAIN st.n[k].props) \cap NoUnset \subseteq DOMAIN st'.n[k].props]_vars

\* C05: merging keeps every edge of both nodes
Nbrs(S, k) == {Other(ek, k) : ek \in Incident(S, k)}
MergeKeepsEdges == [][(lastop'.op = "MergeNodes" /\ chg')
                         => LET km == <<lastop'.g, lastop'.n>>
                                ko == <<lastop'.h, lastop'.n>>
                                ren(x) == IF x = ko THEN km ELSE x
                            IN  Nbrs(st', km) = {ren(x) : x \in Nbrs(st, km) \cup Nbrs(st, ko)}]_vars

\* C05/C09: a failing call leaves the store unchanged (built into Apply; checked as a property of the dispatch)
FailureAtomic == [][Apply(st, lastop').out # "ok" => st' = st]_vars
=============================================================================
