---------------------------- MODULE MC_FimStoreConc ----------------------------
EXTENDS FimStoreConc, Json
CONSTANT Scenario

AG(g, labs, bad) == [op |-> "add_graph", g |-> g, labels |-> labs, bad |-> bad]
AD(g, labs)      == [op |-> "add_graph_direct", g |-> g, labels |-> labs]
AB(g, l)         == [op |-> "add_blank", g |-> g, label |-> l]
DG(g)            == [op |-> "del_graph", g |-> g]
DA               == [op |-> "del_all"]
EX(g)            == [op |-> "extract", g |-> g]
DN(g, l)         == [op |-> "del_node", g |-> g, label |-> l]
GG(g)            == [op |-> "get_graph", g |-> g]

ScriptsDef ==
    CASE Scenario = 1 -> [t \in {1, 2} |-> IF t = 1 THEN <<AG("g1", <<"a", "b">>, 0), AB("g1", "c")>>
                                                     ELSE <<AG("g2", <<"d">>, 0), AB("g2", "e")>>]
      [] Scenario = 2 -> [t \in {1, 2, 3} |-> IF t = 1 THEN <<AG("g1", <<"a", "b">>, 0), AG("g1", <<"x", "y">>, 2)>>
                                         ELSE IF t = 2 THEN <<DG("g1"), AD("g1", <<"z">>)>>
                                         ELSE <<AB("g2", "w"), EX("g1")>>]
      [] Scenario = 3 -> [t \in {1, 2, 3} |-> IF t = 1 THEN <<AG("g1", <<"a">>, 0), AB("g1", "p")>>
                                         ELSE IF t = 2 THEN <<AG("g1", <<"b", "c">>, 0), AB("g2", "q")>>
                                         ELSE <<DA, AB("g1", "r")>>]
      [] Scenario = 4 -> [t \in {1, 2} |-> IF t = 1 THEN <<AB("g1", "a"), AB("g1", "b"), AG("g2", <<"m">>, 1)>>
                                                     ELSE <<AB("g1", "c"), AG("g2", <<"n", "o">>, 0), DG("g1")>>]
      [] Scenario = 5 -> [t \in {1, 2} |-> IF t = 1 THEN <<AG("g1", <<"a", "b">>, 0), AG("g1", <<"c">>, 0), DG("g1"), AG("g1", <<"d">>, 0)>>
                                                     ELSE <<EX("g1"), AB("g1", "e"), AD("g1", <<"f", "g">>), EX("g1")>>]
      [] Scenario = 6 -> [t \in {1} |-> <<AG("g1", <<"a", "b">>, 0), AG("g1", <<"x">>, 1), AG("g1", <<"c">>, 0), AD("g1", <<"d">>),
                                          AD("g2", <<"e">>), EX("g1"), EX("g9"), AB("g1", "f"), AB("g3", "h"), DG("g1"), DG("g9"),
                                          AG("g1", <<"i">>, 0), DA, AG("g1", <<"j", "k">>, 2), EX("g1"),
                                          \* identifiers after node deletions (first, middle, last, missing node)
                                          AG("g1", <<"a", "b", "c", "d">>, 0), DN("g1", "a"), AB("g1", "n1"), DN("g1", "c"), DN("g1", "zz"),
                                          AB("g1", "n2"), EX("g1"), DN("g1", "n2"), AB("g1", "n3"), AD("g1", <<"p", "q">>), DN("g1", "p"),
                                          AB("g1", "n4"), AB("g2", "m1"), DN("g2", "m1"), AB("g2", "m2"), EX("g1"), EX("g2")>>]
      \* two threads building a graph under a brand-new id node by node (every property-graph call looks the graph up first)
      [] Scenario = 7 -> [t \in {1, 2} |-> IF t = 1 THEN <<GG("g1"), AB("g1", "a"), GG("g2")>>
                                                     ELSE <<GG("g1"), AB("g1", "b"), EX("g1")>>]


\* hand the scenario to the schedule explorer (harness/sched.py) - the scripts exist only here
EmitScenario == PrintT(ToJson([scenario |-> Scenario, scripts |-> [t \in DOMAIN ScriptsDef |-> ScriptsDef[t]]]))
=============================================================================
