---------------------------- MODULE MC_FimTopology ----------------------------
EXTENDS FimTopology, Json
CONSTANTS MaxDepth, Seed, Profile

VARIABLES st, lastop, path, chg, lvl
vars == <<st, lastop, path, chg, lvl>>

NodeNames == {"n1", "n2"}
Sites == {"S1", "S2"}
CompNames == {"c1"}
SvcNames == {"s1", "s2"}
ModelKeys == IF Profile = "full" THEN {"nic2", "nic1", "gpu"} ELSE {"nic2", "nic1"}
SvcTypes == IF Profile = "full" THEN {"L2Bridge", "L2PTP", "L2STS", "FABNetv4"} ELSE {"L2Bridge", "L2PTP"}

\* interfaces that exist now and could be handed to a service (node interfaces, facility ports, sub-interfaces)
NodeSideIfs(T) == {p \in El(T) : Cls(T, p) = CP /\ T.el[p].type \in {"DedicatedPort", "SharedPort", "FacilityPort", "SubInterface"}}
TopSvcs(T) == {p \in Services(T) : T.el[p].par = ""}
DedPorts(T) == {p \in El(T) : Cls(T, p) = CP /\ T.el[p].type = "DedicatedPort"}

IfLists(T) == {<<>>} \cup {<<i>> : i \in NodeSideIfs(T)} \cup
              {<<i, j>> : i \in NodeSideIfs(T), j \in NodeSideIfs(T)} \cup {<<"stale/iface">>} \cup
              {<<i, "stale/iface">> : i \in NodeSideIfs(T)}

\* substrate models: explicit ids (supplied by the recorder), node-level services with their own interfaces, explicit links
TrunkIfs(T) == {p \in El(T) : Cls(T, p) = CP /\ T.el[p].type \in {"TrunkPort", "DedicatedPort", "SharedPort", "FacilityPort"}}
NodeSvcs(T) == {p \in Services(T) : T.el[p].par # "" /\ Cls(T, T.el[p].par) = NN}
SubstrateOps(T) ==
         {[op |-> "AddNode", name |-> n, site |-> "S1", ntype |-> t, rp |-> <<>>] : n \in NodeNames \cup {"!x"}, t \in {"Server", "Switch"}}
    \cup {[op |-> "RemoveNode", name |-> n] : n \in NodeNames \cup {"f1"}}
    \cup {[op |-> "AddComponent", n |-> n, name |-> c, model |-> m] : n \in Nodes(T), c \in CompNames, m \in {"nic2", "nic1", "gpu", "nosuch"}}
    \cup {[op |-> "RemoveComponent", n |-> n, name |-> c] : n \in Nodes(T), c \in CompNames}
    \cup {[op |-> "AddStorage", n |-> n, name |-> "st1"] : n \in Nodes(T)}
    \cup {[op |-> "AddNodeService", n |-> n, name |-> "ns1", nstype |-> t] : n \in Nodes(T), t \in {"MPLS", "VLAN"}}
    \* caller-supplied ids that collide across classes
    \cup {[op |-> "AddNode", name |-> "n3", site |-> "S1", ntype |-> "Server", rp |-> <<>>, cid |-> "X"]}
    \cup {[op |-> "AddNodeService", n |-> n, name |-> "ns2", nstype |-> "MPLS", cid |-> "X"] : n \in Nodes(T)}
    \* ... also deep inside a composite: the LAST interface of a catalogue component is handed the id X
    \cup {[op |-> "AddComponent", n |-> n, name |-> "c2", model |-> m, ifcid |-> "X"] : n \in Nodes(T), m \in {"nic2", "nic1"}}
    \cup {[op |-> "RemoveNodeService", n |-> n, name |-> "ns1"] : n \in Nodes(T)}
    \cup {[op |-> "AddInterface", s |-> s, name |-> i, itype |-> "TrunkPort"] : s \in NodeSvcs(T), i \in {"i1", "i2", "!x"}}
    \cup {[op |-> "AddLink", name |-> l, ltype |-> lt, ifs |-> ifs] : l \in {"l1"}, lt \in {"Patch", "L2Path"},
              ifs \in {<<i, j>> : i \in TrunkIfs(T), j \in TrunkIfs(T) \cup {"stale/iface"}} \cup {<<>>} \cup {<<"stale/iface">>}}
    \cup {[op |-> "RemoveLink", name |-> n] : n \in {"l1"}}
    \cup {[op |-> "AddFacility", name |-> "f1", site |-> "S1", rp |-> <<>>]}
    \cup {[op |-> "AddFacility", name |-> "f1", site |-> "S1", rp |-> <<>>, ifs |-> ifs] : ifs \in {<<"fa", "fb">>, <<"fa", "fa">>}}
    \cup {[op |-> "RemoveFacility", name |-> n] : n \in {"f1", "n1"}}
    \cup {[op |-> "AddSwitch", name |-> "sw1", site |-> "S1", nports |-> 2], [op |-> "RemoveSwitch", name |-> "sw1"],
          [op |-> "RemoveSwitch", name |-> "n1"]}
    \cup {[op |-> "SetProp", p |-> p, kind |-> "rp", pname |-> "Capacities", val |-> [core |-> "i:2"]] : p \in Nodes(T)}
    \cup {[op |-> "Rename", p |-> p, new |-> "r9"] : p \in Nodes(T)}
    \cup {[op |-> "Views"], [op |-> "Validate"]}
    \cup {[op |-> "HandleIfs", p |-> p] : p \in NodeSvcs(T)}
    \cup {[op |-> "Navigate", p |-> p] : p \in El(T)}

ExperimentOps(T) ==
         {[op |-> "AddNode", name |-> n, site |-> s, ntype |-> "VM", rp |-> <<>>] : n \in NodeNames \cup {"!x"}, s \in Sites}
    \cup {[op |-> "RemoveNode", name |-> n] : n \in NodeNames \cup {"f1"}}
    \cup {[op |-> "AddComponent", n |-> n, name |-> c, model |-> m] : n \in Nodes(T), c \in CompNames, m \in ModelKeys \cup {"nosuch"}}
    \cup {[op |-> "RemoveComponent", n |-> n, name |-> c] : n \in Nodes(T), c \in CompNames}
    \cup {[op |-> "AddService", name |-> s, nstype |-> t, ifs |-> ifs, site |-> "", rp |-> <<>>] :
              s \in SvcNames, t \in SvcTypes, ifs \in IfLists(T)}
    \cup {[op |-> "RemoveService", name |-> s] : s \in SvcNames}
    \cup {[op |-> "Connect", s |-> s, i |-> i] : s \in TopSvcs(T), i \in NodeSideIfs(T)}
    \cup {[op |-> "Disconnect", s |-> s, i |-> i] : s \in TopSvcs(T), i \in NodeSideIfs(T)}
    \cup {[op |-> "ConnectViaStale", i |-> i] : i \in NodeSideIfs(T) \cup {"stale/iface"}}
    \cup (IF Profile = "full" THEN
            {[op |-> "AddFacility", name |-> "f1", site |-> s, rp |-> <<>>] : s \in {"S1"}}
       \* the multi-interface form; a repeated or invalid interface name at the last position fails the whole call
       \cup {[op |-> "AddFacility", name |-> "f1", site |-> "S1", rp |-> <<>>, ifs |-> ifs] :
                 ifs \in {<<"fa", "fb">>, <<"fa", "fb", "fa">>, <<"fa", "!x">>}}
       \cup {[op |-> "RemoveFacility", name |-> n] : n \in {"f1", "n1"}}
       \cup {[op |-> "Peer", a |-> ab[1], b |-> ab[2]] : ab \in {x \in TopSvcs(T) \X TopSvcs(T) : x[1] # x[2]}}
       \cup {[op |-> "Unpeer", a |-> ab[1], b |-> ab[2]] : ab \in {x \in TopSvcs(T) \X TopSvcs(T) : x[1] # x[2]}}
       \cup {[op |-> "AddSubInterface", i |-> i, name |-> "sub1", vlan |-> v] : i \in DedPorts(T), v \in {"100", ""}}
       \cup {[op |-> "RemoveSubInterface", i |-> i, name |-> "sub1"] : i \in DedPorts(T)}
       \cup {[op |-> "RemoveLink", name |-> T.el[l].name] : l \in Links(T)}

       \cup {[op |-> "Rename", p |-> p, new |-> n] : p \in Nodes(T) \cup TopSvcs(T), n \in {"n2", "r9"}}
       \cup {[op |-> "Rename", p |-> p, new |-> "data"] : p \in NodeSideIfs(T)}
       \cup {[op |-> "SetProp", p |-> p, kind |-> "rp", pname |-> "Capacities", val |-> [core |-> "i:2"]] : p \in Nodes(T)}
       \cup {[op |-> "SetProp", p |-> p, kind |-> "sp", pname |-> "Site", val |-> "S2"] : p \in Nodes(T) \cup TopSvcs(T)}
       \cup {[op |-> "UnsetProp", p |-> p, kind |-> "rp", pname |-> "Capacities"] : p \in Nodes(T)}
       \cup {[op |-> "SetProps", p |-> p, bad |-> b,
               items |-> << [kind |-> "rp", pname |-> "Capacities", val |-> [core |-> "i:3"]], [kind |-> "rp", pname |-> "Labels", val |-> [local_name |-> "s:x"]] >>] :
                 p \in Nodes(T) \cup TopSvcs(T) \cup NodeSideIfs(T) \cup UNION {KidsOf(T, n, CO) : n \in Nodes(T)}, b \in {"none", "unknown", "type"}}
          ELSE {})
    \* creating calls with an invalid property among otherwise good arguments
    \cup {[op |-> "AddNode", name |-> "n9", site |-> "S1", ntype |-> "VM", rp |-> <<>>, bad |-> b] : b \in {"unknown", "type"}}
    \cup {[op |-> "AddFacility", name |-> "f9", site |-> "S1", rp |-> <<>>, bad |-> b] : b \in {"unknown", "type"}}
    \cup {[op |-> "AddSwitch", name |-> "sw9", site |-> "S1", nports |-> 2, bad |-> "type"]}
    \cup {[op |-> "AddComponent", n |-> n, name |-> "c9", model |-> "nic1", bad |-> b] : n \in Nodes(T), b \in {"unknown", "type"}}
    \cup {[op |-> "AddService", name |-> "s9", nstype |-> "L2Bridge", ifs |-> ifs, site |-> "", rp |-> <<>>, bad |-> b] :
              ifs \in {<<>>} \cup {<<i>> : i \in NodeSideIfs(T)}, b \in {"unknown", "type"}}
    \cup {[op |-> "Views"], [op |-> "Validate"]}
    \cup {[op |-> "HandleIfs", p |-> p] : p \in TopSvcs(T) \cup DedPorts(T)}
    \cup {[op |-> "Navigate", p |-> p] : p \in El(T)}

\* a small alphabet around facilities with several interfaces (Profile = "fac"): which of them are connected, in which
\* order, when the facility / the service / one connection goes
FacilityOps(T) ==
         {[op |-> "Connect", s |-> s, i |-> i] : s \in TopSvcs(T), i \in {p \in NodeSideIfs(T) : T.el[p].type = "FacilityPort"}}
    \cup {[op |-> "Disconnect", s |-> s, i |-> i] : s \in TopSvcs(T), i \in {p \in NodeSideIfs(T) : T.el[p].type = "FacilityPort"}}
    \cup {[op |-> "RemoveFacility", name |-> n] : n \in {"f1", "n1"}}
    \cup {[op |-> "RemoveNode", name |-> "f1"]}
    \cup {[op |-> "RemoveService", name |-> "s1"]}
    \cup {[op |-> "AddFacility", name |-> "f1", site |-> "S1", rp |-> <<>>, ifs |-> ifs] : ifs \in {<<"fa", "fb">>, <<"fa", "fb", "fa">>}}
    \cup {[op |-> "Views"], [op |-> "Validate"]}
    \cup {[op |-> "HandleIfs", p |-> p] : p \in TopSvcs(T)}

Ops(T) == IF Flavour = "substrate" THEN SubstrateOps(T) ELSE IF Profile = "fac" THEN FacilityOps(T) ELSE ExperimentOps(T)

N(name, site) == [op |-> "AddNode", name |-> name, site |-> site, ntype |-> "VM", rp |-> <<>>]
C(n, name, m) == [op |-> "AddComponent", n |-> n, name |-> name, model |-> m]
SeedOps ==
    CASE Seed = "empty" -> <<>>
      [] Seed = "two"   -> << N("n1", "S1"), C("n1", "c1", "nic2"), N("n2", "S2"), C("n2", "c1", "nic1") >>
      [] Seed = "svc"   -> << N("n1", "S1"), C("n1", "c1", "nic2"), N("n2", "S1"), C("n2", "c1", "nic2"),
                              [op |-> "AddService", name |-> "s1", nstype |-> "L2Bridge", site |-> "", rp |-> <<>>,
                               ifs |-> <<"n1/c1/n1-c1-l2ovs/c1-p1", "n2/c1/n2-c1-l2ovs/c1-p1">>] >>
      [] Seed = "sub"   -> << [op |-> "AddNode", name |-> "n1", site |-> "S1", ntype |-> "Switch", rp |-> <<>>],
                              [op |-> "AddNodeService", n |-> "n1", name |-> "ns1", nstype |-> "MPLS"],
                              [op |-> "AddInterface", s |-> "n1/ns1", name |-> "i1", itype |-> "TrunkPort"],
                              [op |-> "AddNode", name |-> "n2", site |-> "S1", ntype |-> "Server", rp |-> <<>>],
                              [op |-> "AddComponent", n |-> "n2", name |-> "c1", model |-> "nic2"] >>
      \* two interfaces of one node that carry the same name (in different scopes), each connected to a service
      [] Seed = "twin"  -> << N("n1", "S1"), C("n1", "c1", "nic1"), C("n1", "c2", "nic1"), N("n2", "S1"),
                              [op |-> "AddService", name |-> "s1", nstype |-> "L2Bridge", site |-> "", rp |-> <<>>, ifs |-> <<"n1/c1/n1-c1-l2ovs/c1-p1">>],
                              [op |-> "AddService", name |-> "s2", nstype |-> "L2Bridge", site |-> "", rp |-> <<>>, ifs |-> <<"n1/c2/n1-c2-l2ovs/c2-p1">>],
                              [op |-> "Rename", p |-> "n1/c1/n1-c1-l2ovs/c1-p1", new |-> "data"],
                              [op |-> "Rename", p |-> "n1/c2/n1-c2-l2ovs/c2-p1", new |-> "data"] >>
      \* a facility with three interfaces, none connected yet (which one gets connected is the explorer's choice)
      [] Seed = "fac3"  -> << N("n1", "S1"), C("n1", "c1", "nic2"),
                              [op |-> "AddFacility", name |-> "f1", site |-> "S1", rp |-> <<>>, ifs |-> <<"fa", "fb", "fc">>],
                              [op |-> "AddService", name |-> "s1", nstype |-> "L2STS", site |-> "", rp |-> <<>>, ifs |-> <<"n1/c1/n1-c1-l2ovs/c1-p1">>] >>
      \* a port with two sub-interfaces (one of them connected), another port with one
      [] Seed = "subs"  -> << N("n1", "S1"), C("n1", "c1", "nic2"), N("n2", "S1"),
                              [op |-> "AddSubInterface", i |-> "n1/c1/n1-c1-l2ovs/c1-p1", name |-> "sub1", vlan |-> "100"],
                              [op |-> "AddSubInterface", i |-> "n1/c1/n1-c1-l2ovs/c1-p1", name |-> "sub2", vlan |-> "200"],
                              [op |-> "AddSubInterface", i |-> "n1/c1/n1-c1-l2ovs/c1-p2", name |-> "sub1", vlan |-> "100"],
                              [op |-> "AddService", name |-> "s1", nstype |-> "L2Bridge", site |-> "", rp |-> <<>>,
                               ifs |-> <<"n1/c1/n1-c1-l2ovs/c1-p1/sub2", "n1/c1/n1-c1-l2ovs/c1-p2/sub1">>] >>
      \* a richer seed: sub-interface connected to a service, a facility, two peered services
      [] Seed = "rich"  -> << N("n1", "S1"), C("n1", "c1", "nic2"), N("n2", "S2"), C("n2", "c1", "nic2"),
                              [op |-> "AddSubInterface", i |-> "n1/c1/n1-c1-l2ovs/c1-p2", name |-> "sub1", vlan |-> "100"],
                              [op |-> "AddFacility", name |-> "f1", site |-> "S1", rp |-> <<>>],
                              [op |-> "AddService", name |-> "s1", nstype |-> "L2STS", site |-> "", rp |-> <<>>,
                               ifs |-> <<"n1/c1/n1-c1-l2ovs/c1-p1", "n2/c1/n2-c1-l2ovs/c1-p1">>],
                              [op |-> "AddService", name |-> "s2", nstype |-> "L2Bridge", site |-> "", rp |-> <<>>,
                               ifs |-> <<"n1/c1/n1-c1-l2ovs/c1-p2/sub1", "f1/f1-ns/f1-int">>],
                              [op |-> "Peer", a |-> "svc:s1", b |-> "svc:s2"] >>
RECURSIVE RunAll(_, _, _)
RunAll(T, ops, i) == IF i > Len(ops) THEN T ELSE RunAll(Apply(T, ops[i]).st, ops, i + 1)

Init == st = RunAll(Empty, SeedOps, 1) /\ lastop = [op |-> "Init"] /\ path = SeedOps /\ chg = FALSE /\ lvl = 1
\* lvl = number of steps taken + 1: an explicit depth (unlike TLCGet("level") it does not depend on which worker found a
\* state first, so the model-checking runs - VIEW ViewMC - are complete for the bound with any number of workers)
Next == lvl <= MaxDepth /\ \E o \in Ops(st) :
          LET r == Apply(st, o) IN
            /\ st' = r.st /\ lastop' = o /\ chg' = (r.st # st) /\ lvl' = IF r.st # st THEN lvl + 1 ELSE lvl
            /\ path' = IF r.st # st THEN Append(path, o) ELSE path
Spec == Init /\ [][Next]_vars
View == st
ViewMC == <<st, lvl>>
Bound == TLCGet("level") <= MaxDepth
LogStep == PrintT(ToJson([path |-> path, op |-> lastop', chg |-> chg']))

\* C07: every reachable model satisfies the published rules
RulesHold == GraphRules(st)
WhichRule == RuleViolated(st) = ""
\* C09: a failing call leaves the model unchanged
FailureAtomic == [][Apply(st, lastop').out # "ok" => st' = st]_vars
\* C08: a removal deletes only the element, what it owns and its peering artefacts: everything that survives is unchanged
RemovalFrame == [][lastop'.op \in {"RemoveNode", "RemoveComponent", "RemoveService", "Disconnect", "RemoveFacility", "Unpeer",
                                   "RemoveSubInterface", "RemoveLink"}
                     => \A p \in El(st') : p \in El(st) /\ st'.el[p] = st.el[p]]_vars
\* C10: validation never changes anything but the recorded site of single-site services
ValidateFrame == [][lastop'.op = "Validate" => \A p \in El(st) : p \in El(st') /\ [st'.el[p] EXCEPT !.sp = st.el[p].sp] = st.el[p]]_vars
=============================================================================
