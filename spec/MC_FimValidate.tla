---------------------------- MODULE MC_FimValidate ----------------------------
(* C10: the configuration space of slice validation.  Every initial state is one slice configuration           *)
(*   service type x number of interfaces (0..MaxIfs) x site placement (set partitions) x interface kinds x       *)
(*   declared site (none / same / other) x constrained properties x (interfaces given at construction | connected *)
(*   afterwards)                                                                                                  *)
(* built by a sequence of public calls (the path); the behaviour is then "validate" (and "views").  The verdict   *)
(* of the model is FimTopology!Valid over the PINNED constraint tables; TLC also checks on every configuration    *)
(* that the verdict agrees with an independent, table-free restatement of the limits for the types it covers.     *)
EXTENDS FimTopology, Json
CONSTANTS MaxIfs, Kinds, PropMode, SvcSubset

VARIABLES st, lastop, path, chg
vars == <<st, lastop, path, chg>>

\* constrained properties set on the service: none / each one alone / the ones PortMirror requires
PropSets ==
    IF PropMode = "none" THEN {<<>>}
    ELSE {<<>>, << <<"ControllerURL", "http://c">> >>, << <<"MirrorPort", "p1">> >>, << <<"MirrorVlan", "100">> >>,
          << <<"MirrorDirection", "Both">> >>, << <<"MirrorPort", "p1">>, <<"MirrorDirection", "Both">> >>}

\* site placements: restricted-growth strings = set partitions, at most 3 sites
RG(k) == {s \in [1..k -> 1..3] : \A i \in 1..k : s[i] > 1 => \E j \in 1..(i - 1) : s[j] = s[i] - 1}
KindSeqs(k) == IF k = 0 THEN {<<>>} ELSE
    {[i \in 1..k |-> kd] : kd \in Kinds} \cup
    (IF k >= 2 /\ {"D", "S"} \subseteq Kinds THEN {[i \in 1..k |-> IF i = k THEN "S" ELSE "D"]} ELSE {}) \cup
    (IF k >= 2 /\ {"D", "F"} \subseteq Kinds THEN {[i \in 1..k |-> IF i = 1 THEN "F" ELSE "D"]} ELSE {})
SiteName(i) == "S" \o ToString(i)
NodeName(i) == "n" \o ToString(i)
IfPath(i, kd) ==
    CASE kd = "D" -> NodeName(i) \o "/c1/" \o NodeName(i) \o "-c1-l2ovs/c1-p1"
      [] kd = "S" -> NodeName(i) \o "/c1/" \o NodeName(i) \o "-c1-l2ovs/c1-p1"
      [] kd = "B" -> NodeName(i) \o "/c1/" \o NodeName(i) \o "-c1-l2ovs/c1-p1/sub1"
      [] kd = "F" -> "f" \o ToString(i) \o "/f" \o ToString(i) \o "-ns/f" \o ToString(i) \o "-int"
BuildIf(i, kd, site) ==
    CASE kd \in {"D", "S", "B"} ->
            << [op |-> "AddNode", name |-> NodeName(i), site |-> site, ntype |-> "VM", rp |-> <<>>],
               [op |-> "AddComponent", n |-> NodeName(i), name |-> "c1", model |-> IF kd = "S" THEN "nic1" ELSE "nic2"] >>
            \o (IF kd = "B" THEN << [op |-> "AddSubInterface", i |-> IfPath(i, "D"), name |-> "sub1", vlan |-> "10" \o ToString(i)] >> ELSE <<>>)
      [] kd = "F" -> << [op |-> "AddFacility", name |-> "f" \o ToString(i), site |-> site, rp |-> <<>>] >>
RECURSIVE Flat(_)
Flat(ss) == IF ss = <<>> THEN <<>> ELSE Head(ss) \o Flat(Tail(ss))

PropOps(ps) == [j \in 1..Len(ps) |-> [op |-> "SetProp", p |-> "svc:s1", kind |-> "sp", pname |-> ps[j][1], val |-> ps[j][2]]]

Build(t, k, sites, kinds, decl, ps, via) ==
    LET ifs  == [i \in 1..k |-> IfPath(i, kinds[i])]
        dsite == CASE decl = "none" -> "" [] decl = "same" -> (IF k = 0 THEN "S1" ELSE SiteName(sites[1])) [] decl = "other" -> "S9"
        mk(ifl) == [op |-> "AddService", name |-> "s1", nstype |-> t, ifs |-> ifl, site |-> dsite, rp |-> <<>>]
    IN  Flat([i \in 1..k |-> BuildIf(i, kinds[i], SiteName(sites[i]))])
        \o (IF via = "ctor" THEN <<mk(ifs)>> ELSE <<mk(<<>>)>> \o [i \in 1..k |-> [op |-> "Connect", s |-> "svc:s1", i |-> ifs[i]]])
        \o PropOps(ps)

RECURSIVE RunAll(_, _, _)
RunAll(T, ops, i) == IF i > Len(ops) THEN T ELSE RunAll(Apply(T, ops[i]).st, ops, i + 1)

\* node configurations: every node type with and without a site (required for Server / VM / Container), alone, next to
\* a valid node, and with the site cleared after creation
NodeTypesC == DOMAIN NodeConstraints \ {"Facility"}
NodeCfgs ==
    UNION {{ << [op |-> "AddNode", name |-> "n1", site |-> s, ntype |-> nt, rp |-> <<>>] >>,
             << [op |-> "AddNode", name |-> "n0", site |-> "S1", ntype |-> "VM", rp |-> <<>>],
                [op |-> "AddNode", name |-> "n1", site |-> s, ntype |-> nt, rp |-> <<>>] >>,
             << [op |-> "AddNode", name |-> "n1", site |-> "S1", ntype |-> nt, rp |-> <<>>],
                [op |-> "SetProp", p |-> "n1", kind |-> "sp", pname |-> "Site", val |-> s] >> } : s \in {"", "S1"}, nt \in NodeTypesC}

\* histories: a valid (or invalid) slice reached by REMOVING a node that had one free and one connected port - the
\* verdict must be that of the slice that remains
Extra == << [op |-> "AddNode", name |-> "nx", site |-> "S1", ntype |-> "VM", rp |-> <<>>],
            [op |-> "AddComponent", n |-> "nx", name |-> "c1", model |-> "nic2"] >>
AfterRemoval ==
    {Build(t, k, [i \in 1..k |-> 1], [i \in 1..k |-> "D"], "none", <<>>, "ctor") \o Extra
        \o << [op |-> "Connect", s |-> "svc:s1", i |-> "nx/c1/nx-c1-l2ovs/c1-" \o port], [op |-> "RemoveNode", name |-> "nx"] >> :
        t \in (IF SvcSubset = {} THEN {"L2Bridge", "L2STS", "L2PTP", "FABNetv4"} ELSE SvcSubset \cap {"L2Bridge", "L2STS", "L2PTP", "FABNetv4"}),
        k \in 1..2, port \in {"p1", "p2"}}
Init == \/ \E b \in NodeCfgs \cup AfterRemoval : path = b /\ st = RunAll(Empty, b, 1) /\ lastop = [op |-> "Init"] /\ chg = FALSE
        \/ \E t \in (IF SvcSubset = {} THEN ServiceTypes ELSE SvcSubset), k \in 0..MaxIfs, decl \in {"none", "same", "other"},
           ps \in PropSets, via \in {"ctor", "connect"} :
          \E sites \in RG(k), kinds \in KindSeqs(k) :
            /\ path = Build(t, k, sites, kinds, decl, ps, via)
            /\ st = RunAll(Empty, path, 1)
            /\ lastop = [op |-> "Init"] /\ chg = FALSE

Next == \E o \in {[op |-> "Validate"], [op |-> "Views"]} :
          LET r == Apply(st, o) IN st' = r.st /\ lastop' = o /\ chg' = (r.st # st) /\ path' = path
Spec == Init /\ [][Next]_vars
View == <<st, path>>
LogStep == PrintT(ToJson([path |-> path, op |-> lastop', chg |-> chg']))

\* ---------------------------------------------------------------- design-level cross-check of the verdict
\* an independent restatement for the common slice-wide types (no table lookup): the table-driven Valid must agree
Svc == "svc:s1"
NIf == Cardinality(KidsOf(st, Svc, CP))
IndependentOK ==
    Has(st, Svc) =>
      LET t == st.el[Svc].type
          sites == SvcSites(st, Svc)
          kinds == {st.el[i].type : i \in Joined(st, Svc)}
          noextra == ~\E pn \in {"MirrorPort", "MirrorVlan", "MirrorDirection", "ControllerURL"} : pn \in DOMAIN st.el[Svc].sp
          declOK == (Cardinality(sites) = 1 /\ SiteOf(st, Svc) # "" => SiteOf(st, Svc) \in sites)
                    /\ (Cardinality(sites) > 1 => SiteOf(st, Svc) = "")
      IN  CASE t = "L2Bridge" -> (ServiceValid(st, Svc) <=> (NIf >= 1 /\ Cardinality(sites) <= 1 /\ noextra /\ declOK))
            [] t = "L2PTP"    -> (ServiceValid(st, Svc) <=> (NIf = 2 /\ Cardinality(sites) <= 2 /\ noextra /\ declOK
                                                             /\ kinds \subseteq {"DedicatedPort", "FacilityPort", "SubInterface"}))
            [] t = "L2STS"    -> (ServiceValid(st, Svc) <=> (NIf >= 2 /\ Cardinality(sites) <= 2 /\ noextra /\ declOK))
            [] t \in {"FABNetv4", "FABNetv6", "FABNetv4Ext", "FABNetv6Ext"}
                              -> (ServiceValid(st, Svc) <=> (NIf >= 1 /\ Cardinality(sites) <= 1 /\ noextra /\ declOK))
            [] t \in {"L2Multisite", "L3VPN"} -> (ServiceValid(st, Svc) <=> (NIf >= 1 /\ noextra))
            [] OTHER -> TRUE
RulesHold == RuleViolated(st) = ""
=============================================================================
