---------------------------- MODULE Trace_FimADM ----------------------------
EXTENDS FimADM, Json, IOUtils
Batch == JsonDeserialize(IOEnv.TRACE_FILE)
Traces == Batch.traces
VARIABLES tid, l, cur, bad
vars == <<tid, l, cur, bad>>

AbsG(js) == [n |-> [x \in DOMAIN js.n |-> [cls |-> js.n[x].cls, props |-> js.n[x].props, stitch |-> js.n[x].stitch,
                                          deleg |-> [t \in DOMAIN js.n[x].deleg |-> Fn(js.n[x].deleg[t])]]],
             e |-> {[ends |-> ToSet(ed.ends), rel |-> ed.rel] : ed \in ToSet(js.e)}]
\* which clause of the statement does an observed partition break (evaluated on the IMPLEMENTATION's output)
ClauseBroken(A, P) ==
    IF DOMAIN P # DelIds(A) THEN "one model per delegation id"
    ELSE IF ~DelegatedPresent(A, P) THEN "a delegated resource is missing or lacks its own entries"
    ELSE IF ~NoForeignEntry(A, P) THEN "an entry of another delegation appears in a partition"
    ELSE IF ~SubModel(A, P) THEN "a partition is not a sub-model of the aggregate"
    ELSE IF ~InterfaceKeepsContext(A, P) THEN "a kept interface lost its link, peer, service or the service's owner"
    ELSE IF ~StitchEverywhere(A, P) THEN "a stitching element is missing from a partition"
    ELSE ""

Init == tid \in 1..Len(Traces) /\ l = 1 /\ cur = EmptyARM /\ bad = 0
Next == /\ l <= Len(Traces[tid].steps)
        /\ LET line == Traces[tid].steps[l]
               o    == IF line.op.op \in {"LoadARM", "LoadFile"} THEN [op |-> "LoadARM", arm |-> AbsG(line.op.arm)] ELSE line.op
               exp  == Apply(cur, o)
               got  == AbsG(line.state)
               P    == IF line.res.k = "adms" THEN [d \in DOMAIN line.res.v |-> AbsG(line.res.v[d])] ELSE <<>>
               v    == IF line.out # exp.out THEN "outcome: expected " \o exp.out \o " got " \o line.out
                       ELSE IF got # exp.st THEN "the aggregate model was altered"
                       ELSE IF line.op.op = "Partition" /\ line.out = "ok" /\ ClauseBroken(cur, P) # "" THEN ClauseBroken(cur, P)
                       ELSE IF exp.res.k = "adms" /\ P # exp.res.v THEN
                                (IF line.op.op = "PartitionAndRekey" THEN "re-keying changed more than the key"
                                 ELSE "partition differs from the reference construction (extra elements kept)")
                       ELSE ""
           IN  /\ IF v # "" THEN PrintT(ToJson([verdict |-> "REJECT", tid |-> Traces[tid].tid, line |-> l, clause |-> v])) ELSE TRUE
               /\ cur' = IF v = "" THEN exp.st ELSE got
               /\ bad' = IF v = "" THEN bad ELSE bad + 1
               /\ l' = l + 1
               /\ IF l = Len(Traces[tid].steps)
                    THEN PrintT(ToJson([verdict |-> "DONE", tid |-> Traces[tid].tid, lines |-> l, bad |-> bad'])) ELSE TRUE
        /\ UNCHANGED tid
Spec == Init /\ [][Next]_vars
=============================================================================
