---------------------------- MODULE Trace_FimCBM ----------------------------
EXTENDS FimCBM, Json, IOUtils
Batch == JsonDeserialize(IOEnv.TRACE_FILE)
Traces == Batch.traces
VARIABLES tid, l, cur, bad
vars == <<tid, l, cur, bad>>

AbsCBM(js) == [n |-> [x \in DOMAIN js.n |-> [props |-> js.n[x].props, adms |-> ToSet(js.n[x].adms),
                                            deleg |-> [t \in DOMAIN js.n[x].deleg |-> Fn(js.n[x].deleg[t])]]],
               e |-> {ToSet(ed) : ed \in ToSet(js.e)}]
AbsADM(i, js) == [id |-> i, n |-> [x \in DOMAIN js.n |-> [props |-> js.n[x].props, deleg |-> Fn(js.n[x].deleg)]],
                  e |-> {ToSet(ed) : ed \in ToSet(js.e)}]
AbsState(js) == [cbm |-> AbsCBM(js.cbm), adm |-> [i \in DOMAIN js.adm |-> AbsADM(i, js.adm[i])],
                 snaps |-> [k \in DOMAIN js.snaps |-> AbsCBM(js.snaps[k])], plug |-> js.plug]
NormState(S) == [cbm |-> NormCBM(S.cbm), adm |-> S.adm, snaps |-> [k \in DOMAIN S.snaps |-> NormCBM(S.snaps[k])], plug |-> S.plug]
ResOK(e, got) == CASE e.k = "none" -> TRUE
                   [] e.k = "deleg" -> got.k = "deleg" /\ got.v = e.v
                   [] e.k = "bqm" -> got.k = "bqm" /\ got.via = e.via /\ got.same

Init == tid \in 1..Len(Traces) /\ l = 1 /\ cur = Init0 /\ bad = 0
Next == /\ l <= Len(Traces[tid].steps)
        /\ LET line == Traces[tid].steps[l]
               exp  == Apply(cur, line.op)
               got  == AbsState(line.state)
               v    == IF line.op.op = "Unmerge" /\ line.out = "ok" /\ exp.out = "ok"
                          /\ NormState(got) # NormState(exp.st)
                          /\ NormState(got) = NormState([exp.st EXCEPT !.cbm = UnmergeAsImplemented(cur, line.op.i)])
                            THEN "deviation:UnmergeKeepsConnectionsBetweenSharedElements"
                       ELSE IF line.out # exp.out THEN "outcome: expected " \o exp.out \o " got " \o line.out
                       ELSE IF NormState(got).adm # NormState(exp.st).adm THEN "a source model was altered"
                       ELSE IF NormCBM(got.cbm).n # NormCBM(exp.st.cbm).n THEN "combined model: elements / provenance / delegations"
                       ELSE IF got.cbm.e # exp.st.cbm.e THEN "combined model: connections"
                       ELSE IF NormState(got).snaps # NormState(exp.st).snaps THEN "snapshots"
                       ELSE IF \E x \in DOMAIN line.state.cbm.n : ~line.state.cbm.n[x].adms_distinct THEN "provenance lists a model twice"
                       ELSE IF ~ProvenanceExact(got) THEN "provenance not exact"
                       ELSE IF got.plug # exp.st.plug THEN "plug-in registry"
                       ELSE IF ~ResOK(exp.res, line.res) THEN (IF exp.res.k = "deleg" THEN "delegations attributed to a contributing model" ELSE "result")
                       ELSE ""
           IN  /\ IF v # "" THEN PrintT(ToJson([verdict |-> "REJECT", tid |-> Traces[tid].tid, line |-> l, clause |-> v])) ELSE TRUE
               /\ cur' = IF v = "" THEN exp.st ELSE got
               /\ bad' = IF v = "" THEN bad ELSE bad + 1
               /\ l' = l + 1
               /\ IF l = Len(Traces[tid].steps)
                    THEN PrintT(ToJson([verdict |-> "DONE", tid |-> Traces[tid].tid, lines |-> l, bad |-> bad'])) ELSE TRUE
        /\ UNCHANGED tid
Spec == Init /\ [][Next]_vars
=============================================================================
