---------------------------- MODULE Trace_FimCapacity ----------------------------
(* Trace validation for the capacity layer (C15): every recorded call on the real Capacities / FreeCapacity objects  *)
(* is compared with FimCapacity!Apply - result, operands read back after the call, and the ledger state.            *)
EXTENDS FimCapacity, Json, IOUtils

Batch == JsonDeserialize(IOEnv.TRACE_FILE)
Traces == Batch.traces
VARIABLES tid, l, cur, bad
vars == <<tid, l, cur, bad>>

VecOf(j) == [f \in Fields |-> IF f \in DOMAIN j THEN j[f] ELSE 0]
ExactFields(j) == DOMAIN j = Fields            \* the implementation object carries exactly the documented fields

ResOK(e, got) ==
    CASE e.k = "val" ->
            /\ got.k \in {"vec", "bool", "names", "enc"}
            /\ (got.k = "vec"   => ExactFields(got.v) /\ VecOf(got.v) = e.v)
            /\ (got.k = "bool"  => got.v = e.v)
            /\ (got.k = "names" => ToSet(got.v) = e.v /\ Len(got.v) = Cardinality(e.v))
            /\ (got.k = "enc"   => [f \in DOMAIN got.v |-> got.v[f]] = e.v)
            /\ VecOf(got.a) = e.a /\ VecOf(got.b) = e.b          \* operands never modified ...
            /\ ExactFields(got.a) /\ ExactFields(got.b)          \* ... and still carry every field
      [] e.k = "ledger" -> got.k = "ledger" /\ VecOf(got.free) = e.free

Init == tid \in 1..Len(Traces) /\ l = 1 /\ cur = EmptyLedger /\ bad = 0
Next == /\ l <= Len(Traces[tid].steps)
        /\ LET line == Traces[tid].steps[l]
               exp  == Apply(cur, line.op)
               got  == [total |-> VecOf(line.state.total), allocated |-> VecOf(line.state.allocated)]
               v    == IF line.out # exp.out THEN "outcome: expected " \o exp.out \o " got " \o line.out
                       ELSE IF ~ResOK(exp.res, line.res) THEN "result"
                       ELSE IF got # exp.st \/ ~ExactFields(line.state.total) \/ ~ExactFields(line.state.allocated) THEN "ledger"
                       ELSE IF ~LedgerInv(got) THEN "free+allocated#total"
                       ELSE ""
           IN  /\ IF v # "" THEN PrintT(ToJson([verdict |-> "REJECT", tid |-> Traces[tid].tid, line |-> l, clause |-> v])) ELSE TRUE
               /\ cur' = IF v = "" THEN exp.st ELSE got
               /\ bad' = IF v = "" THEN bad ELSE bad + 1
               /\ l' = l + 1
               /\ IF l = Len(Traces[tid].steps)
                    THEN PrintT(ToJson([verdict |-> "DONE", tid |-> Traces[tid].tid, lines |-> l, bad |-> bad'])) ELSE TRUE
        /\ UNCHANGED tid
Spec == Init /\ [][Next]_vars
=============================================================================
