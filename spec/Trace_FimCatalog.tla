---------------------------- MODULE Trace_FimCatalog ----------------------------
EXTENDS FimCatalog
Batch == JsonDeserialize(IOEnv.TRACE_FILE)
Traces == Batch.traces
VARIABLES tid, l, bad
vars == <<tid, l, bad>>

Fn(f) == [x \in DOMAIN f |-> f[x]]
NormIf(i) == [name |-> i.name, type |-> i.type, id |-> i.id, unit |-> i.unit, bw |-> i.bw, labidx |-> i.labidx,
              local_name |-> i.local_name]
NormComp(v) == [comp |-> [name |-> v.comp.name, model |-> v.comp.model, type |-> v.comp.type, details |-> v.comp.details],
                ns |-> [name |-> v.ns.name, type |-> v.ns.type, layer |-> v.ns.layer, id |-> v.ns.id,
                             ifs |-> [i \in 1..Len(v.ns.ifs) |-> NormIf(v.ns.ifs[i])]]]

ResOK(e, got) ==
    CASE e.k = "none" -> got.k = "none"
      [] e.k = "admissible" -> got.k = "str" /\ Admissible(got.v, e.req)
      [] e.k = "caps" -> got.k = "caps" /\ got.others_zero /\ got.known = e.known /\ Fn(got.v) = Fn(e.v)
      [] e.k = "val" ->
            CASE got.k = "names" -> ToSet(got.v) = e.v /\ Len(got.v) = Cardinality(e.v)
              [] got.k = "enum"  -> [i \in 1..Len(got.v) |-> [type |-> got.v[i].type, model |-> got.v[i].model]] = e.v
              [] got.k = "comp"  -> NormComp(got.v) = e.v
              [] OTHER -> FALSE

Init == tid \in 1..Len(Traces) /\ l = 1 /\ bad = 0
Next == /\ l <= Len(Traces[tid].steps)
        /\ LET line == Traces[tid].steps[l]
               exp  == Apply("none", line.op)
               v    == IF line.out # exp.out THEN "outcome: expected " \o exp.out \o " got " \o line.out
                       ELSE IF ~ResOK(exp.res, line.res) THEN "result"
                       ELSE ""
           IN  /\ IF v # "" THEN PrintT(ToJson([verdict |-> "REJECT", tid |-> Traces[tid].tid, line |-> l, clause |-> v])) ELSE TRUE
               /\ bad' = IF v = "" THEN bad ELSE bad + 1
               /\ l' = l + 1
               /\ IF l = Len(Traces[tid].steps)
                    THEN PrintT(ToJson([verdict |-> "DONE", tid |-> Traces[tid].tid, lines |-> l, bad |-> bad'])) ELSE TRUE
        /\ UNCHANGED tid
Spec == Init /\ [][Next]_vars
=============================================================================
