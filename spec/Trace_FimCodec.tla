---------------------------- MODULE Trace_FimCodec ----------------------------
EXTENDS FimCodec, Json, IOUtils
Batch == JsonDeserialize(IOEnv.TRACE_FILE)
Traces == Batch.traces
VARIABLES tid, l, cur, bad
vars == <<tid, l, cur, bad>>

RtOf(g) == [k |-> "rt", enc |-> Fn(g.enc), empty |-> g.empty, absent |-> g.absent, dec |-> Fn(g.dec), same_text |-> g.same_text]
ResOK(e, got) ==
    CASE e.k = "none" -> got.k = "none"
      [] e.k = "rt"   -> got.k = "rt" /\ got.orig_untouched /\ RtOf(got) = e
      [] e.k = "upd"  -> got.k = "upd" /\ got.distinct /\ Fn(got.new) = e.new /\ Fn(got.orig) = e.orig
      [] e.k = "dec"  -> got.k = "dec" /\ Fn(got.dec) = e.dec
      [] e.k = "simple" -> got.k = "simple" /\ got.dec = e.dec /\ got.absent = e.absent /\ got.same_text = e.same_text
      [] e.k = "val"  -> got.k = "val" /\ got.v = e.v
      [] e.k = "entries" -> got.k = "entries" /\ Fn(got.v) = e.v

Init == tid \in 1..Len(Traces) /\ l = 1 /\ cur = EmptyMaint /\ bad = 0
Next == /\ l <= Len(Traces[tid].steps)
        /\ LET line == Traces[tid].steps[l]
               exp  == Apply(cur, line.op)
               got  == [entries |-> Fn(line.state.entries), final |-> line.state.final]
               v    == IF line.op.op = "RoundTrip" /\ line.out = "ok" /\ line.res.k = "rt"
                          /\ RoundTripAsImplemented(line.op.cls, Fn(line.op.asg)) # exp.res
                          /\ RtOf(line.res) = RoundTripAsImplemented(line.op.cls, Fn(line.op.asg))
                            THEN "deviation:ZeroFloatTreatedAsUnset"
                       ELSE IF line.op.op = "DecodeExtra" /\ line.out = "ok" /\ line.res.k = "dec" /\ exp.res.k = "dec"
                               /\ Fn(line.res.dec) # exp.res.dec
                               /\ Fn(line.res.dec) = Dec(line.op.cls, EncAsImplemented(line.op.cls, Obj(line.op.cls, Fn(line.op.asg))))
                            THEN "deviation:ZeroFloatTreatedAsUnset"
                       ELSE IF line.op.op = "DecodeExtra" /\ line.op.extra = "foreign" /\ line.out \in {"AssertionError", "TypeError"}
                            THEN "deviation:UnknownFieldOfForeignTypeAbortsDecoding"
                       ELSE IF line.out # exp.out THEN "outcome: expected " \o exp.out \o " got " \o line.out
                       ELSE IF ~ResOK(exp.res, line.res) THEN "result"
                       ELSE IF got # exp.st THEN "maintenance record state"
                       ELSE ""
           IN  /\ IF v # "" THEN PrintT(ToJson([verdict |-> "REJECT", tid |-> Traces[tid].tid, line |-> l, clause |-> v])) ELSE TRUE
               /\ cur' = IF v = "" THEN exp.st ELSE got
               /\ bad' = IF v = "" THEN bad ELSE bad + 1
               /\ l' = l + 1
               /\ IF l = Len(Traces[tid].steps)
                    THEN PrintT(ToJson([verdict |-> "DONE", tid |-> Traces[tid].tid, lines |-> l, bad |-> bad'])) ELSE TRUE
        /\ UNCHANGED tid
Spec == Init /\ [][Next]_vars
=============================================================================
