---------------------------- MODULE Trace_FimCypher ----------------------------
EXTENDS FimCypher, Json, IOUtils
Batch == JsonDeserialize(IOEnv.TRACE_FILE)
Traces == Batch.traces
VARIABLES tid, l, cur, bad
vars == <<tid, l, cur, bad>>

Init == tid \in 1..Len(Traces) /\ l = 1 /\ cur = Empty /\ bad = 0
Next == /\ l <= Len(Traces[tid].steps)
        /\ LET line == Traces[tid].steps[l]
               defects == {Defect(line.stmts[i].q, ToSet(line.stmts[i].params)) : i \in DOMAIN line.stmts} \ {""}
               r == Apply(cur, line)
               clauses == {"ill-formed statement: " \o d : d \in defects}
                          \cup (IF r.same THEN {} ELSE {"statement text depends on stored values (not a parameter, not an escaped literal)"})
           IN  /\ \A c \in clauses : PrintT(ToJson([verdict |-> "REJECT", tid |-> Traces[tid].tid, line |-> l, clause |-> c]))
               /\ cur' = r.st
               /\ bad' = IF clauses = {} THEN bad ELSE bad + 1
               /\ l' = l + 1
               /\ IF l = Len(Traces[tid].steps)
                    THEN PrintT(ToJson([verdict |-> "DONE", tid |-> Traces[tid].tid, lines |-> l, bad |-> bad'])) ELSE TRUE
        /\ UNCHANGED tid
Spec == Init /\ [][Next]_vars
=============================================================================
