---------------------------- MODULE Trace_FimDelegation ----------------------------
EXTENDS FimDelegation, Json, IOUtils
Batch == JsonDeserialize(IOEnv.TRACE_FILE)
Traces == Batch.traces
VARIABLES tid, l, bad
vars == <<tid, l, bad>>

NormEntry(e) == [fmt |-> e.fmt, pool |-> e.pool, det |-> e.det]
NormWire(w) == IF "pool" \in DOMAIN w THEN [pool |-> w.pool] ELSE [pool_id |-> w.pool_id, det |-> w.det]
ResOK(e, got) ==
    CASE e.k = "none" -> got.k = "none"
      [] e.k = "roundtrip" -> /\ got.k = "roundtrip" /\ got.same_text = e.same_text /\ got.empty = e.empty
                              /\ [d \in DOMAIN got.wire |-> NormWire(got.wire[d])] = e.wire
                              /\ [d \in DOMAIN got.decoded |-> NormEntry(got.decoded[d])] = e.decoded
      [] e.k = "pools" -> /\ got.k = "pools"
                          /\ [n \in DOMAIN got.nodes |-> [d \in DOMAIN got.nodes[n] |-> NormEntry(got.nodes[n][d])]] = e.nodes
                          /\ [a \in DOMAIN got.back |-> [del |-> got.back[a].del, on |-> got.back[a].on,
                                                         for |-> ToSet(got.back[a].for), det |-> got.back[a].det]] = e.back
                          /\ ("adms" \in DOMAIN e =>
                                /\ "adms" \in DOMAIN got /\ got.other_type_absent
                                /\ [d \in DOMAIN got.adms |-> [n \in DOMAIN got.adms[d] |-> NormEntry(got.adms[d][n])]] = e.adms)
Init == tid \in 1..Len(Traces) /\ l = 1 /\ bad = 0
Next == /\ l <= Len(Traces[tid].steps)
        /\ LET line == Traces[tid].steps[l]
               exp  == Apply("none", line.op)
               v    == IF line.out # exp.out THEN "outcome: expected " \o exp.out \o " got " \o line.out
                       ELSE IF ~ResOK(exp.res, line.res) THEN "result" ELSE ""
           IN  /\ IF v # "" THEN PrintT(ToJson([verdict |-> "REJECT", tid |-> Traces[tid].tid, line |-> l, clause |-> v])) ELSE TRUE
               /\ bad' = IF v = "" THEN bad ELSE bad + 1
               /\ l' = l + 1
               /\ IF l = Len(Traces[tid].steps)
                    THEN PrintT(ToJson([verdict |-> "DONE", tid |-> Traces[tid].tid, lines |-> l, bad |-> bad'])) ELSE TRUE
        /\ UNCHANGED tid
Spec == Init /\ [][Next]_vars
=============================================================================
