---------------------------- MODULE Trace_FimDomains ----------------------------
EXTENDS FimDomains, Json, IOUtils
Batch == JsonDeserialize(IOEnv.TRACE_FILE)
Traces == Batch.traces
VARIABLES tid, l, cur, bad
vars == <<tid, l, cur, bad>>

AbsState(s) == [lab |-> AbsAsg(s.lab), tags |-> s.tags, name |-> [kind |-> s.name.kind, s |-> s.name.s], boot |-> s.boot,
                blob |-> [cls |-> s.blob.cls, len |-> s.blob.len]]
Category(o) == IF o.op \in {"LNew", "LFromJson", "ElemSetLabels", "LUpdate", "ElemUpdateLabels", "LRecode"} THEN "label"
               ELSE IF o.op \in {"TNew", "TFromJson", "ElemSetTags"} THEN "tag"
               ELSE IF o.op \in {"SetName", "ElemCreate", "ElemSetName", "ElemRename"} THEN "name"
               ELSE IF o.op \in {"SetBoot", "ElemSetBoot"} THEN "boot script"
               ELSE IF o.op = "Reset" THEN "reset" ELSE "JSON blob"

Init == tid \in 1..Len(Traces) /\ l = 1 /\ cur = Empty /\ bad = 0
Next == /\ l <= Len(Traces[tid].steps)
        /\ LET line == Traces[tid].steps[l]
               exp  == Apply(cur, line.op)
               got  == AbsState(line.state)
               v    == IF line.out = exp.out /\ got = exp.st THEN ""
                       ELSE IF Stored(cur) /\ ~Stored(got) THEN "stored: a " \o Category(line.op) \o " value outside its documented domain was stored"
                       ELSE IF exp.out = "rejected" /\ line.out = "ok" THEN "accepted: a " \o Category(line.op) \o " value outside its documented domain was accepted"
                       ELSE IF exp.out = "ok" /\ line.out = "rejected" THEN "rejected: a " \o Category(line.op) \o " value inside its documented domain was rejected (" \o line.res.exc \o ")"
                       ELSE "state: what is stored after the call differs (" \o Category(line.op) \o ")"
           IN  /\ IF v # "" THEN PrintT(ToJson([verdict |-> "REJECT", tid |-> Traces[tid].tid, line |-> l, clause |-> v])) ELSE TRUE
               /\ cur' = IF v = "" THEN exp.st ELSE got
               /\ bad' = IF v = "" THEN bad ELSE bad + 1
               /\ l' = l + 1
               /\ IF l = Len(Traces[tid].steps)
                    THEN PrintT(ToJson([verdict |-> "DONE", tid |-> Traces[tid].tid, lines |-> l, bad |-> bad'])) ELSE TRUE
        /\ UNCHANGED tid
Spec == Init /\ [][Next]_vars
=============================================================================
