---------------------------- MODULE Trace_FimSliverConv ----------------------------
EXTENDS FimSliverConv, Json, IOUtils
Batch == JsonDeserialize(IOEnv.TRACE_FILE)
Traces == Batch.traces
VARIABLES tid, l, cur, bad
vars == <<tid, l, cur, bad>>

AbsEls(m) == [p \in DOMAIN Fn(m) |-> [kind |-> m[p].kind, type |-> m[p].type, props |-> Fn(m[p].props)]]
AbsState(s) == [g |-> AbsEls(s)]
ResOK(e, got) ==
    CASE e.k = "none"   -> got.k = "none"
      [] e.k = "val"    -> got.k = "val" /\ got.v = e.v
      [] e.k = "sliver" -> got.k = "sliver" /\ AbsEls(got.el) = e.el
      [] e.k = "vocab"  -> got.k = "vocab" /\ \A k \in Kinds : ToSet(got.v[k]) = Vocab[k] /\ ToSet(got.elem[k]) = Vocab[k]
Matches(exp, line, got) == line.out = exp.out /\ got = exp.st /\ ResOK(exp.res, line.res)
Flags == << {"img"}, {"stitch"}, {"unmapped"}, {"img", "stitch"}, {"img", "unmapped"}, {"stitch", "unmapped"}, {"img", "stitch", "unmapped"} >>

Init == tid \in 1..Len(Traces) /\ l = 1 /\ cur = Empty /\ bad = 0
Next == /\ l <= Len(Traces[tid].steps)
        /\ LET line == Traces[tid].steps[l]
               exp  == Apply(cur, line.op)
               got  == AbsState(line.state)
               devs == {i \in DOMAIN Flags : Matches(ApplyAsImpl(cur, line.op, Flags[i]), line, got)}
               v    == IF Matches(exp, line, got) THEN
                            (IF line.res.k = "sliver" /\ line.op.op \in {"DictRT", "JsonRT"} /\ ~line.res.orig_same
                             THEN "the sliver (or dictionary) that was converted was altered by the conversion" ELSE "")
                       ELSE IF devs # {} THEN "deviation"
                       ELSE IF exp.out = "Unmodelled" THEN "harness: operation outside the modelled alphabet"
                       ELSE IF line.out # exp.out THEN "outcome: expected " \o exp.out \o " got " \o line.out
                       ELSE IF exp.res.k = "vocab" THEN "vocabulary changed: the settable properties of the sliver classes differ from the pinned table"
                       ELSE IF got # exp.st THEN
                            (IF DOMAIN got.g # DOMAIN exp.st.g THEN "graph: elements written differ from the sliver's structure"
                             ELSE "graph: stored property values differ")
                       ELSE IF exp.res.k = "sliver" /\ line.res.k = "sliver" /\ DOMAIN AbsEls(line.res.el) # DOMAIN exp.res.el
                            THEN "rebuilt sliver: structure differs"
                       ELSE IF exp.res.k = "sliver" THEN "rebuilt sliver: property values differ"
                       ELSE "result"
           IN  /\ IF v = "deviation"                     \* one verdict per named deviation that is needed to explain the line
                    THEN \A f \in Flags[Min(devs)] :
                            PrintT(ToJson([verdict |-> "REJECT", tid |-> Traces[tid].tid, line |-> l, clause |-> "deviation:" \o DevName({f})]))
                    ELSE IF v # "" THEN PrintT(ToJson([verdict |-> "REJECT", tid |-> Traces[tid].tid, line |-> l, clause |-> v])) ELSE TRUE
               /\ cur' = IF v = "" THEN exp.st ELSE got
               /\ bad' = IF v = "" THEN bad ELSE bad + 1
               /\ l' = l + 1
               /\ IF l = Len(Traces[tid].steps)
                    THEN PrintT(ToJson([verdict |-> "DONE", tid |-> Traces[tid].tid, lines |-> l, bad |-> bad'])) ELSE TRUE
        /\ UNCHANGED tid
Spec == Init /\ [][Next]_vars
=============================================================================
