---------------------------- MODULE Trace_FimSliverDiff ----------------------------
EXTENDS FimSliverDiff, Json, IOUtils
Batch == JsonDeserialize(IOEnv.TRACE_FILE)
Traces == Batch.traces
VARIABLES tid, l, cur, bad
vars == <<tid, l, cur, bad>>

AbsP(p) == [labels |-> p.labels, caps |-> p.caps, ud |-> p.ud]
AbsIf(i) == [p |-> AbsP(i.p), subs |-> [s \in DOMAIN i.subs |-> [p |-> AbsP(i.subs[s].p)]]]
AbsComp(c) == [p |-> AbsP(c.p), smart |-> c.smart, ifs |-> [i \in DOMAIN c.ifs |-> AbsIf(c.ifs[i])]]
AbsNode(n) == [p |-> AbsP(n.p), comps |-> [c \in DOMAIN n.comps |-> AbsComp(n.comps[c])], svcs |-> [s \in DOMAIN n.svcs |-> [p |-> AbsP(n.svcs[s].p)]]]
AbsOp(o) == IF o.op = "Start" THEN [op |-> "Start", base |-> AbsNode(o.base)] ELSE o

FlagMap(m) == [x \in DOMAIN m |-> ToSet(m[x])]
ND(g) == [self |-> ToSet(g.self), comps_added |-> ToSet(g.comps_added), comps_removed |-> ToSet(g.comps_removed),
          comps_modified |-> FlagMap(g.comps_modified), svcs_added |-> ToSet(g.svcs_added), svcs_removed |-> ToSet(g.svcs_removed),
          svcs_modified |-> FlagMap(g.svcs_modified)]
SD(g) == [added |-> ToSet(g.added), removed |-> ToSet(g.removed), modified |-> FlagMap(g.modified)]
IDf(g) == [self |-> ToSet(g.self), added |-> ToSet(g.added), removed |-> ToSet(g.removed), modified |-> FlagMap(g.modified)]
\* named deviations (known findings) of NodeSliver.diff for node-level services: it compares the new sliver's services
\* with themselves, so additions/removals are never reported when both slivers have services
NodeDiffAsImplemented(a, b) ==
    LET d == NodeDiff(a, b) IN
    IF DOMAIN a.svcs # {} /\ DOMAIN b.svcs # {} THEN [d EXCEPT !.svcs_added = {}, !.svcs_removed = {}] ELSE d
ResOK(e, got) ==
    CASE e.k = "none" -> got.k = "none"
      [] e.k = "nodediff" -> got.k = "nodediff" /\ ND(got.fwd) = e.fwd /\ ND(got.bwd) = e.bwd /\ got.fwd_none = e.fwd_none
                             /\ got.bwd_none = e.bwd_none /\ ~got.fwd.other /\ ~got.bwd.other /\ ~got.fwd.dups /\ ~got.bwd.dups
      [] e.k = "svcdiff" -> got.k = "svcdiff" /\ SD(got.fwd) = e.fwd /\ SD(got.bwd) = e.bwd
      [] e.k = "ifdiff"  -> got.k = "ifdiff" /\ IDf(got.fwd) = e.fwd /\ IDf(got.bwd) = e.bwd

Init == tid \in 1..Len(Traces) /\ l = 1 /\ cur = [old |-> [p |-> P0, comps |-> <<>>, svcs |-> <<>>], new |-> [p |-> P0, comps |-> <<>>, svcs |-> <<>>]] /\ bad = 0
Next == /\ l <= Len(Traces[tid].steps)
        /\ LET line == Traces[tid].steps[l]
               exp  == Apply(cur, AbsOp(line.op))
               got  == [old |-> AbsNode(line.state.old), new |-> AbsNode(line.state.new)]
               v    == IF line.out # exp.out THEN "outcome: expected " \o exp.out \o " got " \o line.out
                       ELSE IF got # exp.st THEN "the compared slivers were altered by the comparison (or an edit went wrong)"
                       ELSE IF ~ResOK(exp.res, line.res) THEN
                            (IF exp.res.k = "nodediff" /\ line.res.k = "nodediff"
                                /\ ND(line.res.fwd) = NodeDiffAsImplemented(cur.old, cur.new)
                                /\ ND(line.res.bwd) = NodeDiffAsImplemented(cur.new, cur.old)
                             THEN "deviation:NodeLevelServiceChangesNotReported" ELSE "result")
                       ELSE ""
           IN  /\ IF v # "" THEN PrintT(ToJson([verdict |-> "REJECT", tid |-> Traces[tid].tid, line |-> l, clause |-> v])) ELSE TRUE
               /\ cur' = IF v = "" THEN exp.st ELSE got
               /\ bad' = IF v = "" THEN bad ELSE bad + 1
               /\ l' = l + 1
               /\ IF l = Len(Traces[tid].steps)
                    THEN PrintT(ToJson([verdict |-> "DONE", tid |-> Traces[tid].tid, lines |-> l, bad |-> bad'])) ELSE TRUE
        /\ UNCHANGED tid
Spec == Init /\ [][Next]_vars
=============================================================================
