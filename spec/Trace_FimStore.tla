---------------------------- MODULE Trace_FimStore ----------------------------
(* Validation of traces recorded from the real backends against FimStore.                                    *)
(* One TLC initial state per trace, one TLC state per trace line; every line is judged (total verdict):       *)
(*   the outcome class, the result and the complete projected store must equal Apply's prediction, and the    *)
(*   invariants are evaluated on the implementation's own projected state.  After a mismatch the validator    *)
(*   re-synchronises on the logged state so that the rest of the trace is still checked.                      *)
EXTENDS FimStore, Json, IOUtils, TLCExt

Batch == JsonDeserialize(IOEnv.TRACE_FILE)
Traces == Batch.traces

VARIABLES tid, l, cur, obs, bad
vars == <<tid, l, cur, obs, bad>>

\* JSON projection -> abstract store (the clipboard is carried by the specification, it is not observable)
AbsStore(js, doc) ==
    LET ns == ToSet(js.nodes)
        es == ToSet(js.edges)
        key(r) == <<r.g, r.n>>
        ekey(r) == {<<x[1], x[2]>> : x \in ToSet(r.ends)}
    IN  [n |-> [k \in {key(r) : r \in ns} |-> LET r == CHOOSE r \in ns : key(r) = k IN [cls |-> r.cls, props |-> Fn(r.props)]],
         e |-> [ek \in {ekey(r) : r \in es} |-> LET r == CHOOSE r \in es : ekey(r) = ek IN [cls |-> r.cls, props |-> Fn(r.props)]],
         doc |-> doc]

\* the document view the recorder read back from the serialised text
DocOfJson(v) ==
    LET ns == ToSet(v.nodes)
        es == ToSet(v.edges)
    IN  IF Cardinality({r.n : r \in ns}) # Len(v.nodes) \/ Cardinality({ToSet(r.ends) : r \in es}) # Len(v.edges)
        THEN [n |-> "duplicate", e |-> "duplicate"]
        ELSE [n |-> [x \in {r.n : r \in ns} |-> LET r == CHOOSE r \in ns : r.n = x
                                                  IN [cls |-> r.cls, props |-> Fn(r.props), gid |-> r.gid, labels |-> r.labels]],
              e |-> [ek \in {ToSet(r.ends) : r \in es} |-> LET r == CHOOSE r \in es : ToSet(r.ends) = ek
                                                         IN [cls |-> r.cls, props |-> Fn(r.props), label |-> r.label]]]
NormDocView(d) == [n |-> [x \in DOMAIN d.n |-> [d.n[x] EXCEPT !.props = NormProps(@)]],
                   e |-> [ek \in DOMAIN d.e |-> [d.e[ek] EXCEPT !.props = NormProps(@)]]]

\* observed result (tagged by the adapter: none | bool | str | rec | list) against the predicted one
ResOK(e, got) ==
    CASE e.k = "none"  -> got.k = "none"
      [] e.k = "val"   -> IF got.k = "rec" THEN e.v = [cls |-> got.v.cls, props |-> Fn(got.v.props)]
                          ELSE got.k \in {"bool", "str"} /\ e.v = got.v
      [] e.k = "doc"   -> got.k = "doc" /\ DocOfJson(got.v) = e.v
      [] e.k = "anyof" -> got.k = "str" /\ got.v \in e.s
      [] e.k = "ids"   -> got.k = "list" /\ ToSet(got.v) = e.ids /\ Len(got.v) = e.n
      [] e.k = "pairs" -> got.k = "list" /\ {<<x[1], x[2]>> : x \in ToSet(got.v)} = e.pairs /\ Len(got.v) = e.n
      [] e.k = "oneof" -> got.k = "list" /\ (IF e.s = {} THEN got.v = <<>> ELSE got.v \in e.s)

\* invariants evaluated on the implementation's projected state itself
ImplInv(js, S) ==
    IF js.dup # <<>> THEN "DuplicateNodeIdInGraph"
    ELSE IF ~js.alloc_ok THEN "AllocatorNotAhead"
    ELSE IF ~js.lock_free THEN "LockLeftHeld"
    ELSE IF ~EdgesAnchored(S) THEN "DanglingEdge"
    ELSE ""

\* a deviation is a way of DIFFERING from the reference: a line that agrees with it is never one
Differs(exp, line, got) == line.out # exp.out \/ ~ResOK(exp.res, line.res) \/ got.n # exp.st.n \/ got.e # exp.st.e
Verdict(exp, line, js, got) ==
    IF Differs(exp, line, got) /\ Deviation(Traces[tid].backend, cur, line.op, line.out, got) # ""
        THEN "deviation:" \o Deviation(Traces[tid].backend, cur, line.op, line.out, got)
    ELSE IF line.out # exp.out THEN "outcome: expected " \o exp.out \o " got " \o line.out
    ELSE IF ~ResOK(exp.res, line.res) THEN
        (IF /\ exp.res.k = "doc" /\ line.res.k = "doc" /\ Traces[tid].fmt = "graphml"
            /\ DocOfJson(line.res.v) = NormDocView(exp.res.v)
         THEN "deviation:GraphMLNormalisesCR" ELSE
         IF /\ line.op.op = "SecondNbr" /\ line.res.k = "list" /\ exp.res.k = "pairs"
            /\ {<<x[1], x[2]>> : x \in ToSet(line.res.v)} =
                   SecondNbrAsImplemented(cur, line.op.g, line.op.n, line.op.r1, line.op.c1, line.op.r2, line.op.c2)
         THEN "deviation:SecondHopRelationIgnored" ELSE "result")
    ELSE IF /\ line.op.op = "Import" /\ Traces[tid].fmt = "graphml" /\ exp.out = "ok" /\ exp.res.k = "val"
            /\ GraphHasCR(exp.st, exp.res.v)
            /\ got.n = NormGraph(exp.st, exp.res.v).n /\ got.e = NormGraph(exp.st, exp.res.v).e
        THEN "deviation:GraphMLNormalisesCR"
    ELSE IF got.n # exp.st.n THEN "state.nodes"
    ELSE IF got.e # exp.st.e THEN "state.edges"
    ELSE IF ~FrameOK(cur, line.op, got) THEN "frame"
    ELSE ImplInv(js, got)

Init == /\ tid \in 1..Len(Traces)
        /\ l = 1
        /\ cur = AbsStore(Traces[tid].init, NoDoc)
        /\ obs = Traces[tid].init
        /\ bad = 0

Next == /\ l <= Len(Traces[tid].steps)
        /\ LET line == Traces[tid].steps[l]
               exp  == ApplyOn(Traces[tid].backend, Traces[tid].fmt, cur, line.op)
               \* the recorder sets "same" when the projection is identical to the previous line's (trace compression)
               js   == IF line.same THEN obs ELSE line.state
               got  == IF line.same /\ l > 1 /\ bad = 0 THEN [cur EXCEPT !.doc = exp.st.doc]
                       ELSE AbsStore(js, exp.st.doc)
               v    == Verdict(exp, line, js, got)
           IN  /\ IF v # "" THEN PrintT(ToJson([verdict |-> "REJECT", tid |-> Traces[tid].tid, line |-> l, clause |-> v])) ELSE TRUE
               /\ cur' = IF v = "" THEN exp.st ELSE got
               /\ obs' = js
               /\ bad' = IF v = "" THEN bad ELSE bad + 1
               \* a store that holds two nodes with one (graph id, node id) is not representable: judge no further
               /\ l' = IF js.dup # <<>> THEN Len(Traces[tid].steps) + 1 ELSE l + 1
               /\ IF l = Len(Traces[tid].steps) \/ js.dup # <<>>
                    THEN PrintT(ToJson([verdict |-> "DONE", tid |-> Traces[tid].tid, lines |-> l, bad |-> bad']))
                    ELSE TRUE
        /\ UNCHANGED tid

Spec == Init /\ [][Next]_vars
=============================================================================
