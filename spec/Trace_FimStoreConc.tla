---------------------------- MODULE Trace_FimStoreConc ----------------------------
(* Validation of histories recorded from the REAL store classes under controlled thread schedules (harness/sched.py). *)
(* For each history TLC decides:                                                                                       *)
(*   LOCK : the lock events are balanced - every call acquires and releases the same number of times (>= 1), nobody    *)
(*          releases a lock it does not hold or an unlocked lock, no call returns holding the lock, the lock is free    *)
(*          at the end, no deadlock;                                                                                    *)
(*   LIN  : the history is linearizable w.r.t. the atomic meaning of the operations (SeqApply): some total order of     *)
(*          the calls that respects program order and real-time order (a call that returned before another was          *)
(*          invoked comes first) explains every observed outcome/result and the final content of the store.             *)
(* Verdict lines are printed as JSON; a history without ACCEPT is rejected by the harness (total verdict).              *)
EXTENDS FimStoreSeq, Json, IOUtils

Batch == JsonDeserialize(IOEnv.TRACE_FILE)
Traces == Batch.traces

VARIABLES tid, pos, C
vars == <<tid, pos, C>>

H == Traces[tid]
NT == Len(H.threads)
Final == [g \in DOMAIN H.final |-> ToSet(H.final[g])]

\* ---------------------------------------------------------------- lock discipline over the event list
\* fold: state = [holder, open (per-thread acquire/release counters of the running call), bad]
RECURSIVE LockFold(_, _, _, _, _)
LockFold(ev, i, holder, cnt, bad) ==
    IF bad # "" \/ i > Len(ev) THEN
        (IF bad # "" THEN bad ELSE IF holder # 0 THEN "lock held at the end" ELSE "")
    ELSE LET e == ev[i] t == e.thr IN
      CASE e.ev = "call" -> LockFold(ev, i + 1, holder, [cnt EXCEPT ![t] = [a |-> 0, r |-> 0]], bad)
        [] e.ev = "acq"  -> LockFold(ev, i + 1, t, [cnt EXCEPT ![t].a = @ + 1],
                                     IF holder # 0 THEN "acquired while held" ELSE bad)
        [] e.ev = "rel"  -> LockFold(ev, i + 1, 0, [cnt EXCEPT ![t].r = @ + 1],
                                     IF holder # t THEN "released by a thread that does not hold it" ELSE bad)
        [] e.ev = "relerr" -> LockFold(ev, i + 1, holder, cnt, "release of an unlocked lock")
        [] e.ev = "ret"  -> LockFold(ev, i + 1, holder, cnt,
                                     IF holder = t THEN "call returned holding the lock"
                                     ELSE IF cnt[t].a # cnt[t].r THEN "call acquired and released a different number of times"
                                     ELSE IF cnt[t].a = 0 /\ ~e.free THEN "store operation without lock"
                                     ELSE bad)
        [] e.ev = "deadlock" -> LockFold(ev, i + 1, holder, cnt, "deadlock: every unfinished thread waits for the lock")
        [] OTHER -> LockFold(ev, i + 1, holder, cnt, bad)

LockVerdict == LET v == LockFold(H.events, 1, 0, [t \in 1..NT |-> [a |-> 0, r |-> 0]], "")
               IN  IF H.lock_left_held /\ v = "" THEN "lock held at the end" ELSE v

\* ---------------------------------------------------------------- linearizability search
Done(p) == \A t \in 1..NT : p[t] > Len(H.threads[t])
RealTimeOK(t) ==
    LET o == H.threads[t][pos[t]] IN
      \A u \in 1..NT : \A j \in 1..Len(H.threads[u]) :
          (H.threads[u][j].ret < o.call /\ H.threads[u][j].ret > 0) => j < pos[u]

Init == /\ tid \in 1..Len(Traces)
        /\ pos = [t \in 1..Len(Traces[tid].threads) |-> 1]
        /\ C = <<>>
        /\ PrintT(ToJson([verdict |-> "LOCK", tid |-> Traces[tid].tid, clause |-> LockVerdict]))

Next == /\ \E t \in 1..NT :
             /\ pos[t] <= Len(H.threads[t])
             /\ RealTimeOK(t)
             /\ LET o == H.threads[t][pos[t]]
                    r == SeqApply(H.backend, C, o.op)
                IN  /\ o.out = r.out
                    /\ (o.op.op = "extract" => ToSet(o.res) = r.res)
                    /\ C' = r.c
                    /\ pos' = [pos EXCEPT ![t] = @ + 1]
                    /\ (Done(pos') /\ NonEmpty(r.c) = Final)
                          => PrintT(ToJson([verdict |-> "ACCEPT", tid |-> Traces[tid].tid]))
        /\ UNCHANGED tid

Spec == Init /\ [][Next]_vars
=============================================================================
