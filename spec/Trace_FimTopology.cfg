SPECIFICATION Spec
CONSTANTS
  Flavour = "experiment"
CHECK_DEADLOCK FALSE
