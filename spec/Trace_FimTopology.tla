---------------------------- MODULE Trace_FimTopology ----------------------------
(* Trace validation for the topology layer (C07, C08, C09, C10): every recorded call is judged against          *)
(* FimTopology!Apply - outcome class, result, and the COMPLETE projected model (elements, ownership, link ends,  *)
(* tracked properties exactly; properties the model does not track are adopted when an element is created and    *)
(* must never change afterwards: the frame condition) - and the published graph rules are evaluated on the       *)
(* implementation's own projected model after every call.                                                        *)
EXTENDS FimTopology, Json, IOUtils

Batch == JsonDeserialize(IOEnv.TRACE_FILE)
Traces == Batch.traces
VARIABLES tid, l, cur, obs, bad
vars == <<tid, l, cur, obs, bad>>

NormRp(rp) == [k \in DOMAIN rp |-> Fn(rp[k])]
AbsTopo(js) ==
    [el |-> [p \in DOMAIN js.el |-> [cls |-> js.el[p].cls, type |-> js.el[p].type, name |-> js.el[p].name, par |-> js.el[p].par,
                                     sp |-> Fn(js.el[p].sp), rp |-> NormRp(js.el[p].rp)]],
     conn |-> {<<c[1], c[2]>> : c \in ToSet(js.conn)}]

SubMap(a, b) == \A k \in DOMAIN a : k \in DOMAIN b /\ b[k] = a[k]
\* expected state with the untracked creation-time properties of NEW elements taken from the observation
Adopt(E0, O, Old) ==
    [E0 EXCEPT !.el = [p \in DOMAIN E0.el |->
        IF p \notin DOMAIN Old.el /\ p \in DOMAIN O.el /\ SubMap(E0.el[p].sp, O.el[p].sp) /\ SubMap(E0.el[p].rp, O.el[p].rp)
        THEN [E0.el[p] EXCEPT !.sp = O.el[p].sp, !.rp = O.el[p].rp] ELSE E0.el[p]]]

Struct(e) == [cls |-> e.cls, type |-> e.type, name |-> e.name, par |-> e.par]
Diff(X, O) ==      \* first disagreement between expected X and observed O, as a clause
    LET extra == DOMAIN O.el \ DOMAIN X.el
        missing == DOMAIN X.el \ DOMAIN O.el
        both == DOMAIN X.el \cap DOMAIN O.el
    IN  IF extra # {} THEN "state: unexpected " \o O.el[CHOOSE p \in extra : TRUE].type \o " " \o O.el[CHOOSE p \in extra : TRUE].cls
        ELSE IF missing # {} THEN "state: missing " \o X.el[CHOOSE p \in missing : TRUE].type \o " " \o X.el[CHOOSE p \in missing : TRUE].cls
        ELSE IF \E p \in both : Struct(X.el[p]) # Struct(O.el[p]) THEN "state: class/type/name/owner of an element"
        ELSE IF \E p \in both : X.el[p].sp # O.el[p].sp THEN
                 LET p == CHOOSE q \in both : X.el[q].sp # O.el[q].sp
                     ks == {k \in DOMAIN X.el[p].sp \cup DOMAIN O.el[p].sp :
                               k \notin DOMAIN X.el[p].sp \/ k \notin DOMAIN O.el[p].sp \/ X.el[p].sp[k] # O.el[p].sp[k]}
                 IN  "state: property " \o (CHOOSE k \in ks : TRUE) \o " of a " \o X.el[p].type \o " " \o X.el[p].cls
        ELSE IF \E p \in both : X.el[p].rp # O.el[p].rp THEN
                 LET p == CHOOSE q \in both : X.el[q].rp # O.el[q].rp
                     ks == {k \in DOMAIN X.el[p].rp \cup DOMAIN O.el[p].rp :
                               k \notin DOMAIN X.el[p].rp \/ k \notin DOMAIN O.el[p].rp \/ X.el[p].rp[k] # O.el[p].rp[k]}
                 IN  "state: property " \o (CHOOSE k \in ks : TRUE) \o " of a " \o X.el[p].type \o " " \o X.el[p].cls
        ELSE IF X.conn # O.conn THEN "state: link ends"
        ELSE ""

ResOK(e, got) ==
    CASE e.k = "none"  -> got.k = "none"
      [] e.k = "views" -> /\ got.k = "views" /\ got.immutable
                          /\ ToSet(got.nodes) = e.nodes /\ Len(got.nodes) = Cardinality(e.nodes)
                          /\ ToSet(got.facilities) = e.facilities /\ ToSet(got.links) = e.links
                          /\ ToSet(got.services) = e.services /\ Len(got.services) = Cardinality(e.services)
                          /\ ToSet(got.ifaces) = e.ifaces /\ Len(got.ifaces) = Cardinality(e.ifaces)
                          /\ ToSet(got.comps) = e.comps
      [] e.k = "attrs" ->
            /\ got.k = "attrs" /\ got.v.pdp_same /\ got.v.other_keys = <<>>
            /\ got.v.rtype = e.v.rtype
            /\ ToSet(got.v.sites) = e.v.sites /\ Len(got.v.sites) = Cardinality(e.v.sites)
            /\ Fn(got.v.cpu) = e.v.cpu /\ Fn(got.v.ram) = e.v.ram /\ Fn(got.v.disk) = e.v.disk
            /\ Fn(got.v.comps) = e.v.comps /\ Fn(got.v.bw) = e.v.bw
            /\ ToSet(got.v.facilities) = e.v.facilities /\ Len(got.v.facilities) = Cardinality(e.v.facilities)
            /\ ToSet(got.v.v4ext) = e.v.v4ext /\ ToSet(got.v.v6ext) = e.v.v6ext
            /\ ToSet(got.v.mirror) = e.v.mirror /\ Len(got.v.mirror) = Cardinality(e.v.mirror)
      [] e.k = "tally" ->
            /\ got.k = "tally" /\ got.v.vm_count = e.v.vm_count /\ got.v.core_count = e.v.core_count /\ got.v.p4_count = e.v.p4_count
            /\ Fn(got.v.components) = e.v.components /\ Fn(got.v.services) = e.v.services
            /\ ToSet(got.v.sites) = e.v.sites /\ ToSet(got.v.facilities) = e.v.facilities
      [] e.k = "tables" ->
            /\ got.k = "tables"
            /\ [t \in DOMAIN got.svc |-> [layer |-> got.svc[t].layer, min_if |-> got.svc[t].min_if, max_if |-> got.svc[t].max_if,
                                          sites |-> got.svc[t].sites, req |-> ToSet(got.svc[t].req), forb |-> ToSet(got.svc[t].forb),
                                          iftypes |-> ToSet(got.svc[t].iftypes)]] = e.svc
            /\ \A t \in DOMAIN got.svc : got.svc[t].instances = 0
            /\ [t \in DOMAIN got.node |-> [req |-> ToSet(got.node[t].req), forb |-> ToSet(got.node[t].forb)]] = e.node
            /\ [t \in DOMAIN got.link |-> got.link[t]] = e.link
      [] e.k = "handles" -> /\ got.k = "handles" /\ Len(got.v) = Len(e.hs)
                            /\ \A j \in 1..Len(e.hs) : ToSet(got.v[j].fresh) = e.hs[j] /\ ToSet(got.v[j].cached) = e.hs[j]
                                                         /\ Len(got.v[j].cached) = Cardinality(e.hs[j])
      [] e.k = "nav"   -> got.k = "nav" /\ got.parent = e.parent /\ got.owner = e.owner /\ got.lookups_ok
                          /\ ToSet(got.comps) = e.comps /\ Len(got.comps) = Cardinality(e.comps)
                          /\ ToSet(got.svcs) = e.svcs /\ Len(got.svcs) = Cardinality(e.svcs)
                          /\ ToSet(got.ifs) = e.ifs /\ Len(got.ifs) = Cardinality(e.ifs)
      [] e.k = "ifs"   -> got.k = "ifs" /\ ToSet(got.fresh) = e.v /\ ToSet(got.cached) = e.v /\ Len(got.cached) = Cardinality(e.v)

ImplInv(js, O) ==
    IF js.dup # <<>> THEN "rule: two elements with one name in one scope (NamesUniqueInScope)"
    ELSE IF js.anomalies # <<>> THEN "rule: containment structure"
    \* a rule is reported where it BREAKS (the previous model satisfied the rules), not on every later call
    ELSE IF RuleViolated(O) # "" /\ RuleViolated(cur) = "" THEN "rule: " \o RuleViolated(O)
    ELSE ""

Init == /\ tid \in 1..Len(Traces) /\ l = 1 /\ bad = 0
        /\ cur = AbsTopo(Traces[tid].init) /\ obs = Traces[tid].init

Next == /\ l <= Len(Traces[tid].steps)
        /\ LET line == Traces[tid].steps[l]
               exp  == Apply(cur, line.op)
               js   == IF line.same THEN obs ELSE line.state
               O    == IF line.same /\ bad = 0 /\ l > 1 THEN cur ELSE AbsTopo(js)
               X    == Adopt(exp.st, O, cur)
               v    == IF Deviation(cur, line.op, line.out, O) # "" THEN "deviation:" \o Deviation(cur, line.op, line.out, O)
                       ELSE IF line.op.op = "Validate" /\ exp.out # "ok" /\ line.out = exp.out /\ ValidateFailAdmissible(cur, O)
                            THEN ImplInv(js, O)
                       ELSE IF line.out # exp.out THEN "outcome: expected " \o exp.out \o " got " \o line.out
                       ELSE IF ~ResOK(exp.res, line.res) THEN
                            (IF exp.res.k = "handles" /\ line.res.k = "handles" /\ Len(line.res.v) = Len(exp.res.hs)
                                /\ \A j \in 1..Len(exp.res.hs) : ToSet(line.res.v[j].fresh) = exp.res.hs[j]
                             THEN "result: the handle used for the call differs from a fresh lookup"
                             ELSE IF exp.res.k = "attrs" /\ line.res.k = "attrs" /\ ToSet(line.res.v.mirror) # exp.res.v.mirror
                                  THEN "authorization attributes: mirror-site attribute"
                             ELSE IF exp.res.k = "attrs" THEN "authorization attributes"
                             ELSE IF exp.res.k = "tables" THEN "constraint table changed (live tables differ from the pinned ones)"
                             ELSE "result")
                       ELSE IF Diff(X, O) # "" THEN Diff(X, O)
                       ELSE ImplInv(js, O)
           IN  /\ IF v # "" THEN PrintT(ToJson([verdict |-> "REJECT", tid |-> Traces[tid].tid, line |-> l, clause |-> v])) ELSE TRUE
               /\ cur' = IF v = "" /\ ~(line.op.op = "Validate" /\ exp.out # "ok") THEN X ELSE O
               /\ obs' = js
               /\ bad' = IF v = "" THEN bad ELSE bad + 1
               /\ l' = IF js.dup # <<>> THEN Len(Traces[tid].steps) + 1 ELSE l + 1
               /\ IF l = Len(Traces[tid].steps) \/ js.dup # <<>>
                    THEN PrintT(ToJson([verdict |-> "DONE", tid |-> Traces[tid].tid, lines |-> l, bad |-> bad'])) ELSE TRUE
        /\ UNCHANGED tid
Spec == Init /\ [][Next]_vars
=============================================================================
