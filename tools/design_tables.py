#!/usr/bin/env python3
"""Regenerates the three generated tables of DESIGN.md (fix commits, open findings, seeded changes) from known_findings.json and
seeded/*/meta.json.  The tables sit between <!-- NAME:BEGIN --> / <!-- NAME:END --> markers."""
import glob
import json
import os
import re

ROOT = os.path.dirname(os.path.dirname(os.path.abspath(__file__)))


def esc(s):
    return str(s).replace("|", "\\|").replace("\n", " ")


def main():
    d = json.load(open(os.path.join(ROOT, "known_findings.json")))
    fixed = ["| property | commit | what failed |", "|---|---|---|"]
    for f in d["fixed"]:
        fixed.append("| %s | `%s` | %s |" % (f["property"], f["commit"], esc(f["line"].split(f["commit"], 1)[1].strip())))
    kf = ["| property | id | what fails |", "|---|---|---|"]
    for f in d["findings"]:
        if f.get("status", "open") == "open":
            kf.append("| %s | `%s` | %s |" % (f["property"], f["id"], esc(f["what"])))
    seeds = ["| seeded change | property | caught by (quick tier) | needs to manifest — notes |", "|---|---|---|---|"]
    for m in sorted(glob.glob(os.path.join(ROOT, "seeded", "*", "meta.json"))):
        j = json.load(open(m))
        note = j.get("note") or ""
        org = j.get("origin", "")
        if " - " in org:
            note = (note + " " + org.split(" - ", 1)[1]).strip()
        for rnd in ("2", "3", "4"):
            if "(round %s)" % rnd in org:
                note = ("round %s. " % rnd + note).strip()
        seeds.append("| `%s` | %s | %s | %s |" % (os.path.basename(os.path.dirname(m)), j["property"], ", ".join(j.get("caught_by") or ["-"]),
                                               esc(j.get("needs_to_manifest", "") + (" — " + note if note else ""))))
    p = os.path.join(ROOT, "DESIGN.md")
    s = open(p).read()
    for name, rows in (("FIXED", fixed), ("FINDINGS", kf), ("SEEDS", seeds)):
        pat = re.compile(r"(<!-- %s:BEGIN -->\n).*?(<!-- %s:END -->)" % (name, name), re.S)
        assert pat.search(s), name
        s = pat.sub(lambda mo: mo.group(1) + "\n".join(rows) + "\n" + mo.group(2), s)
    s = re.sub(r"the \d+ defects of §5", "the %d defects of §5" % len(d["fixed"]), s)
    s = re.sub(r"by the \d+ seeded changes of §9", "by the %d seeded changes of §9" % (len(seeds) - 2), s)
    open(p, "w").write(s)
    print(len(fixed) - 2, "fixes,", len(kf) - 2, "findings,", len(seeds) - 2, "seeds")


if __name__ == "__main__":
    main()
