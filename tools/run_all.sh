#!/bin/sh
# run every registered check of MANIFEST.json (tier $1, default quick; further arguments: only these property ids)
# and print one status line each
tier=${1:-quick}
# run in the tree this script belongs to (a snapshot worktree when started through vp run), not necessarily /verif
cd "$(dirname "$0")/.."
shift 2>/dev/null
/venv/bin/python - "$tier" "$@" <<'PY'
import json, os, subprocess, sys, time
tier = sys.argv[1]
only = sys.argv[2:]
man = json.load(open("MANIFEST.json"))
bad = 0
for c in man["checks"]:
    if only and c["property_id"] not in only:
        continue
    cmd = c["quick_cmd"] if tier == "quick" else c["thorough_cmd"]
    cmd = cmd.replace("cd /verif", "cd " + os.getcwd())
    t0 = time.time()
    p = subprocess.run(cmd, shell=True, stdout=subprocess.PIPE, stderr=subprocess.STDOUT, text=True)
    last = p.stdout.strip().splitlines()[-1] if p.stdout.strip() else ""
    print("%s rc=%d %.0fs  %s" % (c["property_id"], p.returncode, time.time() - t0, last[:160]))
    sys.stdout.flush()
    if p.returncode != 0:
        bad += 1
        print("\n".join(l for l in p.stdout.splitlines() if l.startswith(("VIOLATION", "  #", "MACHINERY")))[:2000])
sys.exit(1 if bad else 0)
PY
