#!/usr/bin/env python3
"""Confirm a seeded change and run checks against it.

  tools/seed_eval.py <mutation-dir> <check-id>[,<check-id>...] [--tier quick]

1. in a scratch worktree of /repo (under /tmp, removed afterwards): demo passes on the clean tree, patch applies,
   the repository's own suite still has exactly the 77 baseline passes, demo fails with the patch;
2. the listed checks are run with VERIF_REPO pointing at the patched scratch tree (same code path as /repo).
Prints one summary line per step; exit 0 iff confirmed AND at least one check reported a VIOLATION.
"""
import json
import os
import shutil
import subprocess
import sys

BASE = json.load(open("/root/.vp/BASELINE.json"))["stable_pass"]


def sh(cmd, cwd=None, env=None, timeout=3600):
    e = dict(os.environ)
    if env:
        e.update(env)
    p = subprocess.run(cmd, shell=True, cwd=cwd, env=e, stdout=subprocess.PIPE, stderr=subprocess.STDOUT, text=True,
                       timeout=timeout)
    return p.returncode, p.stdout


def main():
    mdir = os.path.abspath(sys.argv[1])
    checks = sys.argv[2].split(",") if len(sys.argv) > 2 and not sys.argv[2].startswith("--") else []
    tier = "quick"
    if "--tier" in sys.argv:
        tier = sys.argv[sys.argv.index("--tier") + 1]
    skip_confirm = "--no-confirm" in sys.argv
    wt = "/tmp/seed-eval-%d" % os.getpid()
    sh(f"git -C /repo worktree add -q --detach {wt} HEAD")
    # the checks run from a snapshot of the committed /verif so that concurrent edits do not disturb them
    vsnap = "/tmp/seed-verif-%d" % os.getpid()
    sh(f"git -C /verif worktree add -q --detach {vsnap} HEAD")
    result = {"dir": mdir, "confirmed": None, "checks": {}}
    try:
        demo = os.path.join(mdir, "demo.py")
        if not skip_confirm:
            rc0, out0 = sh(f"PYTHONPATH={wt} /venv/bin/python {demo}", cwd=wt)
            rca, outa = sh(f"git apply {mdir}/patch.diff", cwd=wt)
            if rca != 0:
                print("PATCH DOES NOT APPLY", outa)
                result["confirmed"] = False
                return result
            rc1, out1 = sh(f"PYTHONPATH={wt} /venv/bin/python {demo}", cwd=wt)
            rct, outt = sh("/venv/bin/python -m pytest -q -p no:cacheprovider --timeout=900 "
                           "--continue-on-collection-errors --junitxml=/tmp/seed-junit-%d.xml 2>&1 | tail -1" % os.getpid(), cwd=wt)
            import xml.etree.ElementTree as ET
            passed = set()
            try:
                for tc in ET.parse("/tmp/seed-junit-%d.xml" % os.getpid()).getroot().iter("testcase"):
                    if not any(ch.tag in ("failure", "error", "skipped") for ch in tc):
                        passed.add(tc.get("classname") + "::" + tc.get("name"))
            finally:
                if os.path.exists("/tmp/seed-junit-%d.xml" % os.getpid()):
                    os.unlink("/tmp/seed-junit-%d.xml" % os.getpid())
            missing = [t for t in BASE if t not in passed]
            print(f"demo clean rc={rc0}  demo patched rc={rc1}  suite: {outt.strip()}  baseline tests no longer passing: {missing}")
            result["confirmed"] = (rc0 == 0 and rc1 != 0 and not missing)
            result["suite"] = outt.strip()
            result["demo_patched_tail"] = out1[-400:]
        else:
            rca, outa = sh(f"git apply {mdir}/patch.diff", cwd=wt)
            if rca != 0:
                print("PATCH DOES NOT APPLY", outa)
                result["confirmed"] = False
                return result
        for c in checks:
            rc, out = sh(f"PYTHONHASHSEED=0 /venv/bin/python -m harness.check {c} --tier {tier}", cwd=vsnap,
                         env={"VERIF_REPO": wt}, timeout=7200)
            vio = [l for l in out.splitlines() if l.startswith("VIOLATION") or l.startswith("  #")]
            print(f"check {c} ({tier}) rc={rc}")
            for l in vio[:8]:
                print("   ", l[:300])
            if rc not in (0, 1):
                print(out[-1500:])
            result["checks"][c] = {"rc": rc, "violations": vio[:8]}
    finally:
        sh(f"git -C /repo worktree remove --force {wt}")
        shutil.rmtree(wt, ignore_errors=True)
        sh(f"git -C /verif worktree remove --force {vsnap}")
        shutil.rmtree(vsnap, ignore_errors=True)
    print("RESULT " + json.dumps({"confirmed": result["confirmed"], "caught": {c: v["rc"] == 1 for c, v in result["checks"].items()}}))
    return result


if __name__ == "__main__":
    main()
