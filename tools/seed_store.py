#!/usr/bin/env python3
"""tools/seed_store.py <src-dir> <seed-id> <property> <caught-by|-> "<needs>" : file a confirmed seeded change under /verif/seeded/<seed-id>/"""
import json, os, shutil, sys
src, sid, prop, caught, needs = sys.argv[1:6]
dst = os.path.join("/verif/seeded", sid)
os.makedirs(dst, exist_ok=True)
for f in ("patch.diff", "demo.py", "notes.md"):
    if os.path.exists(os.path.join(src, f)):
        shutil.copy(os.path.join(src, f), os.path.join(dst, f))
meta = {"property": prop, "needs_to_manifest": needs,
        "confirmed": "tools/seed_eval.py: demo exits 0 on the clean tree and non-zero with the patch; the repository suite keeps its 77 "
                     "baseline passes (36 Neo4j-dependent failures unchanged); patch applies to /repo HEAD at the time of filing",
        "ran": f"tools/seed_eval.py {sid} {prop} (quick tier, checks run from a snapshot of /verif against a patched scratch worktree)",
        "caught_by": [] if caught == "-" else caught.split(","),
        "origin": "independent sub-agent given only the property text and a scratch worktree" + (sys.argv[6] if len(sys.argv) > 6 else "")}
json.dump(meta, open(os.path.join(dst, "meta.json"), "w"), indent=1)
print("stored", dst)
