#!/usr/bin/env python3
"""tools/seed_sweep.py [prefix ...] : re-run every filed seeded change (or those whose id starts with a prefix) against the
checks named in its meta.json (quick tier, tools/seed_eval.py --no-confirm) and print one line per seed; exit 1 if a
seed is no longer caught or its patch no longer applies to /repo HEAD."""
import json, os, subprocess, sys
from concurrent.futures import ThreadPoolExecutor
root = "/verif/seeded"
ids = sorted(d for d in os.listdir(root) if os.path.isdir(os.path.join(root, d)))
if len(sys.argv) > 1:
    ids = [d for d in ids if d.startswith(tuple(sys.argv[1:]))]


def one(sid):
    meta = json.load(open(os.path.join(root, sid, "meta.json")))
    checks = ",".join(meta.get("caught_by") or [meta["property"]])
    p = subprocess.run(["/venv/bin/python", "/verif/tools/seed_eval.py", os.path.join(root, sid), checks, "--no-confirm"],
                       stdout=subprocess.PIPE, stderr=subprocess.STDOUT, text=True)
    res = [l for l in p.stdout.splitlines() if l.startswith("RESULT")]
    napply = "PATCH DOES NOT APPLY" in p.stdout
    caught = json.loads(res[-1][7:])["caught"] if res else {}
    ok = bool(caught) and all(caught.values()) and not napply
    print(("ok     " if ok else "NOT-OK ") + sid + " " + ("patch does not apply" if napply else json.dumps(caught)), flush=True)
    return ok


with ThreadPoolExecutor(int(os.environ.get("SWEEP_JOBS", "2"))) as ex:
    oks = list(ex.map(one, ids))
print("%d seeds, %d ok" % (len(oks), sum(oks)))
sys.exit(0 if all(oks) else 1)
