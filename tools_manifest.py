"""Regenerates MANIFEST.json from the table below (single source of truth for the registered checks)."""
import json
import os

ROOT = os.path.dirname(os.path.abspath(__file__))
BASE = "cd /repo && /venv/bin/python -m pytest -ra -q -p no:cacheprovider --timeout=900 --continue-on-collection-errors"

CHECKS = {
    "C05": dict(
        technique="TLA+ reference model (FimStore) model-checked by TLC; TLC-generated behaviours replayed on both "
                  "backends and seeded random histories, every trace line judged by the Trace_FimStore spec",
        text="Exhaustive TLC model checking of the store reference model for small constants (design-level laws: "
             "isolation, class immutability, identity properties kept, merge keeps edges, failure atomicity) plus "
             "two-way conformance: every transition of the bounded model is replayed through the public API of both "
             "in-memory backends, and random histories over a larger alphabet are recorded; TLC judges outcome class, "
             "result and complete projected store of every step against Apply().",
        note="Bounded constants (2 graph ids, 2 node ids exhaustively; 3x4 randomly); property values are opaque "
             "tokens; asserts on None arguments and merging a graph with itself are outside the alphabet.",
        design="DESIGN.md §3 C05"),
}

PENDING = {}


def main():
    props = [json.loads(l)["id"] for l in open(os.path.join(ROOT, "properties.jsonl"))]
    checks = []
    for pid in props:
        if pid not in CHECKS:
            continue
        c = CHECKS[pid]
        checks.append({
            "property_id": pid,
            "quick_cmd": f"cd /verif && PYTHONHASHSEED=0 /venv/bin/python -m harness.check {pid} --tier quick",
            "thorough_cmd": f"cd /verif && PYTHONHASHSEED=0 /venv/bin/python -m harness.check {pid} --tier thorough",
            "evidence_file": f"/verif/evidence/{pid}.json",
            "replay_cmd_template": "cd /verif && /venv/bin/python -m harness.replay {path} -v",
            "engine": "tla-pipeline",
            "level_claimed": {"category": c.get("level", "model_checking"), "text": c["text"], "design_ref": c["design"]},
            "level_note": c["note"],
            "technique": c["technique"],
        })
    na = [{"property_id": p, "reason": PENDING.get(p, "check not built yet in this round (work in progress, see DESIGN.md §10)")}
          for p in props if p not in CHECKS]
    man = {
        "version": 1,
        "setup_cmd": "cd /verif && /venv/bin/python -m harness.setup",
        "hooks": {"guard": "FABRIC_TESTBED_INFORMATIONMODEL_VERIF",
                  "enable": "no source hooks: everything is observed through the public API, run-time substitution of the "
                            "store lock, sys.settrace and a stand-in driver; the guard variable is reserved and unused",
                  "baseline_off_cmd": BASE,
                  "source_commits": [],
                  "add_only": True},
        "engines": [{"name": "tla-pipeline", "path": "/verif/harness",
                     "serves_properties": sorted(CHECKS),
                     "kind_free_text": "TLA+ specs in /verif/spec; TLC model checking + behaviour generation (Gen_*.cfg) + "
                                       "trace validation (Trace_*.tla) driven by harness/pipeline.py"}],
        "checks": checks,
        "not_applicable": na,
        "notes": "All checks: exit 0 held / 1 VIOLATION / 2 machinery failure. known_findings.json lists recorded defects.",
    }
    with open(os.path.join(ROOT, "MANIFEST.json"), "w") as f:
        json.dump(man, f, indent=1)


if __name__ == "__main__":
    main()
