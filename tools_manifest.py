"""Regenerates MANIFEST.json from the table below (single source of truth for the registered checks)."""
import json
import os

ROOT = os.path.dirname(os.path.abspath(__file__))
BASE = "cd /repo && /venv/bin/python -m pytest -ra -q -p no:cacheprovider --timeout=900 --continue-on-collection-errors"

CHECKS = {
    "C05": dict(
        technique="TLA+ reference model (FimStore) model-checked by TLC; TLC-generated behaviours replayed on both "
                  "backends and seeded random histories, every trace line judged by the Trace_FimStore spec",
        text="Exhaustive TLC model checking of the store reference model for small constants (design-level laws: "
             "isolation, class immutability, identity properties kept, merge keeps edges, failure atomicity) plus "
             "two-way conformance: every transition of the bounded model is replayed through the public API of both "
             "in-memory backends, and random histories over a larger alphabet are recorded; TLC judges outcome class, "
             "result and complete projected store of every step against Apply().",
        note="Bounded constants (2 graph ids, 2 node ids exhaustively; 3x4 randomly); property values are opaque "
             "tokens; asserts on None arguments and merging a graph with itself are outside the alphabet.",
        design="DESIGN.md §3 C05"),
}

CHECKS.update({
    "C01": dict(
        technique="TLA+ store model (Export/Import/Clone + DocView of the serialised text) ; seeded raw property graphs over "
                  "adversarial value classes x 2 formats x 4 import entry points x 2 backends recorded and judged by Trace_FimStore",
        text="TLC checks the import/export/clone laws of the reference model; conformance: raw graphs with values from 14 value "
             "classes (quotes, markup, non-ASCII, blanks, empty, CR/LF, ints, bools) are serialised, the text is read back with "
             "plain networkx/lxml (content + Neo4j label markup on every node and edge), imported through every entry point, "
             "validated and serialised again; every step is compared with the model's prediction by TLC.",
        note="Raw property-graph part of C01 (models built through the topology API are serialised in the C07/C13 checks); "
             "value classes are sampled per seed, not exhausted; control characters that are not XML-legal are outside the quantifier.",
        design="DESIGN.md §3 C01"),
    "C04": dict(
        technique="TLA+ store model with frame condition (Isolation) model-checked over 3 graph ids; TLC-generated multi-graph "
                  "behaviours (from empty and seeded stores, incl. tampered documents) and random interleavings replayed on both "
                  "stores and judged by Trace_FimStore",
        text="TLC proves Isolation / CloneFaithful / FailureAtomic on the multi-graph alphabet; every generated behaviour and "
             "2.5k random 50-step interleavings over 4 graph ids are executed on both store flavours (both text formats); after "
             "EVERY step the whole store (all graphs, cross-graph edges, allocator ahead of all internal ids, lock free) must "
             "equal the model's prediction, which includes the frame condition.",
        note="Internal integer ids are not compared (only uniqueness/allocator-ahead); deliberate re-homing by GraphID rewrite is C14's.",
        design="DESIGN.md §3 C04"),
    "C06": dict(
        technique="TLA+ query operators (neighbours, shortest paths by BFS layers, hop paths) checked by TLC on every typed graph of "
                  "3 (thorough 4) nodes; every (graph, query) replayed next to a decoy graph on both backends + random 5-7 node "
                  "graphs, admissible-set membership judged by Trace_FimStore",
        text="Exhaustive enumeration of all typed graphs on 3 nodes (2 classes, 2 relations, optional self-loops; thorough: 4 "
             "nodes) x all query arguments; TLC checks the oracle itself (QueriesSound) and judges every answer of the real code: "
             "neighbour sets exactly, paths as members of the set of admissible minimal paths.",
        note="Path-with-hops follows the code's documented 'no loops' reading (induced subgraph acyclic), named in the spec.",
        design="DESIGN.md §3 C06"),
    "C20": dict(
        technique="TLA+ model of the store critical sections (FimStoreConc) model-checked for all interleavings (with a lock-free "
                  "variant that must fail); real threads of the real store classes run under a sys.settrace scheduler with an "
                  "instrumented lock, all schedules up to a preemption bound + random ones; histories judged by Trace_FimStoreConc "
                  "(lock balance + linearizability search)",
        text="TLC explores every interleaving of the code-shaped steps of 2-3 threads (LockBalanced, NoDuplicateInternalId, "
             "Linearizable, MutualExclusion, Termination under fairness); the implementation is bound by CHESS-style exploration "
             "with preemption at every source line of the store modules; TLC decides for every recorded history that lock events "
             "are balanced on every path (incl. failing imports and early returns) and that some sequential order explains all "
             "outcomes and the final store content.",
        note="Preemption points are the source lines of the three store modules and the entry of every call they make into other "
             "Python code (what happens inside networkx/networkx_query is atomic); preemption bound 1 quick / 2 thorough plus "
             "random schedules. The property graph's lock-free delete_node is exercised sequentially only (the property speaks "
             "about threads that import graphs or create nodes).",
        design="DESIGN.md §3 C20"),
})

CHECKS.update({
    "C15": dict(
        technique="TLA+ capacity algebra + allocation ledger (FimCapacityAlgebra, FimCapacity): laws checked by TLC over a vector "
                  "family and by Apalache (SMT) for all integer vectors; every operation on every pair and ledger histories "
                  "(incl. printing as an observation) replayed on the real Capacities/FreeCapacity at three scales, judged by "
                  "Trace_FimCapacity",
        text="TLC checks the algebraic laws ((a+b)-b=a, commutativity, associativity, fits <=> no negative field of the "
             "difference, equality laws, free+allocated=total) on the model and generates all operations on all pairs of a "
             "representative vector family (thorough: + the cube {0,1,2}^3 on core/ram/disk) and ledger histories; the real "
             "classes are executed at scales 1, 10^6 and 2^40 and every result, the operands read back after the call, and the "
             "ledger state are compared with the model by TLC.",
        note="Integers beyond 2^31 never enter TLC: values are abstract x scale (+,-,<= commute with scaling).",
        design="DESIGN.md §3 C15"),
    "C18": dict(
        technique="TLA+ catalogue oracle (FimCatalog) reading the repository's JSON data; TLC enumerates the whole request grid "
                  "(catalogue values +/-1; thorough: dense) and every catalogue entry x argument combination; the tabulated "
                  "answers of the real code are judged row by row by Trace_FimCatalog (admissibility = sufficient and Pareto-minimal)",
        text="Exhaustive table check: ~24k (thorough ~3e5) sizing requests and ~1.2k component generations; TLC decides for each "
             "returned size that it satisfies the request and no satisfying size is strictly smaller (or that it is the largest "
             "when nothing fits), that names agree with capacities, and that every generated component tree equals the "
             "catalogue-derived expectation (interface names, kinds, speeds, unit counts, ids, which label object landed where).",
        note="Catalogue files are data (read by TLC), only the algorithms are judged; enum member names (character massage) are "
             "not compared, only the (type, model) list.",
        design="DESIGN.md §3 C18"),
})

TOPO_NOTE = ("Bounded alphabets (2 node names, 2 sites, 3 component models, 2 service names x 4 types exhaustively from seeded "
             "topologies; 4 nodes, 6 models, 8 service types randomly); library-generated ids never compared (elements are "
             "addressed by name paths); properties the model does not track are adopted at creation and then framed.")
CHECKS.update({
    "C07": dict(
        technique="TLA+ reference model of the topology-building API (FimTopology) with the published graph rules as TLC invariants; "
                  "TLC-generated behaviours (experiment and substrate flavour, from seeded topologies) and random walks replayed on "
                  "the real API; Trace_FimTopology evaluates every rule on the implementation's projected model after every call",
        text="TLC proves the graph rules (id/class/type/name, one owner per component/interface, links join interfaces only, every "
             "service port has one peer, names unique in scope) for all histories of the bounded alphabet of the reference model; "
             "every transition is replayed on ExperimentTopology/SubstrateTopology and 3k random 45-call walks are recorded; TLC "
             "compares the complete projected model and the read-only views with the model and evaluates all rules on the "
             "implementation's own model at every step.",
        note=TOPO_NOTE, design="DESIGN.md §3 C07"),
    "C08": dict(
        technique="FimTopology removal operators defined declaratively (owned closure + peering artefacts) with the RemovalFrame "
                  "action property checked by TLC; every applicable removal/disconnect in every reachable topology of the bound "
                  "replayed on the real API, full post-state and handle caches judged by Trace_FimTopology",
        text="Exactness of removal is a frame condition: TLC checks on the model that everything surviving a removal is unchanged, "
             "and judges for every replayed removal (node, component, service, facility, link, sub-interface, disconnect, unpeer) "
             "the complete post-state of the real model against the prediction; the handle through which a call was made must "
             "report the same interfaces as a fresh lookup. Seeds include a port with two sub-interfaces and a facility with "
             "three interfaces (small alphabet over which of them are connected).",
        note=TOPO_NOTE, design="DESIGN.md §3 C08"),
    "C09": dict(
        technique="FimTopology failure disjuncts (st = s) and the code-shaped multi-step service creation with rollback; TLC checks "
                  "FailureAtomic; every failing call of every reachable state of the bound (bad argument at every position) and "
                  "random walks with invalid calls injected are replayed, Trace_FimTopology requires an unchanged model",
        text="For every reachable topology of the bound TLC enumerates all failing calls (duplicate names at each scope, invalid "
             "names, unknown models, already-connected/stale interface as k-th argument, guardrail rejections); the real API must "
             "raise the same exception class and leave the projected model identical; set_properties with an unknown / badly "
             "typed property after good ones on every element kind; a caller-supplied id that is already taken deep inside a "
             "component; connect through the object of a removed service; peering again after the peer service was removed "
             "and re-created.",
        note=TOPO_NOTE, design="DESIGN.md §3 C09"),
    "C10": dict(
        technique="Constraint tables PINNED as TLA+ constants in FimTopology (live tables compared cell by cell); TLC enumerates the "
                  "slice configuration space (MC_FimValidate), cross-checks the table-driven verdict against a table-free "
                  "restatement, and every configuration is built through the public API and validated; verdict and recorded site "
                  "judged by Trace_FimTopology",
        text="Two-sided check over service type x interface count x site placement (set partitions) x interface kinds x declared "
             "site x constrained properties x (constructor | connect) and node type x (site given | missing | cleared): validate() must accept exactly the configurations the pinned "
             "tables allow and record the inferred site; a silent edit of the Python tables is reported as 'constraint table changed'.",
        note="0..3 interfaces quick / 0..4 thorough, <=3 sites; num_instances is NO_LIMIT for every type in the tables (checked), so "
             "the per-site instance limit has no configurations to exercise.",
        design="DESIGN.md §3 C10"),
})

CHECKS.update({
    "C03": dict(
        technique="TLA+ codec model (FimCodec: schema-driven Enc/Dec of every JSON-backed value class + the maintenance record as "
                  "a two-state machine); laws checked by TLC; TLC-generated (class, assignment) grid and maintenance histories "
                  "executed on the real classes, every observed dictionary/outcome judged by Trace_FimCodec",
        text="TLC checks decode(encode(v)) = v, encode(decode(encode(v))) = encode(v), empty <=> nothing set, unknown keys ignored "
             "and the finalize discipline (FinalizedFrozen action property) on the model; every generated assignment (each field "
             "alone, pairs, zero/false/empty values, scalar and list forms, an unknown key placed first/last) is run through "
             "to_json/from_json/update/set_fields of the real class and compared field by field; the original object is read back "
             "after every call.",
        note="Values are tokens per kind (int/float/bool/str/list) - the property is about field bookkeeping, not about "
             "float formatting; two recorded deviations (0.0 treated as unset, unknown field naming a foreign type).",
        design="DESIGN.md §3 C03"),
    "C11": dict(
        technique="FimTopology extended with Attrs()/Tally() (authorization attributes and accounting summary as functions of the "
                  "abstract slice); MC_FimAuthz enumerates a slice family x every creation order; each build is executed on the "
                  "real API and collected from the topology, from its serialised model and tallied; judged by Trace_FimTopology",
        text="Completeness and order-independence: for every slice of the family (VMs with and without capacities, a P4 switch, "
             "components, facility, bridge, external service, two port-mirror services with in-slice / outside mirrored ports at the "
             "same and at different sites) and every permutation of service creation and several node orders, the attribute map, "
             "the decoded PDP request and the accounting summary must equal the model's tally; no other attribute keys; the same "
             "scripts are also run back to back in one process in two orders (no state carried between collections).",
        note="Family of 110 (quick) / ~1000 (thorough) builds; lifetime/subject/project attributes (pure pass-through) not modelled.",
        design="DESIGN.md §3 C11"),
    "C12": dict(
        technique="TLA+ delegation/pool model (FimDelegation): pools->nodes->pools law by TLC; generated delegation lists and pool "
                  "layouts (duplicate ids, ids listed twice in one call, default and explicit delegations) executed on the real "
                  "Delegations/Pools classes and judged by Trace_FimDelegation",
        text="TLC checks that regrouping pool definitions by node and building pools back is the identity and that encoding is "
             "canonical; every generated case is executed (encode, decode, regroup, validate) and compared with the model incl. "
             "the rejection of inconsistent pools; pools and own delegations written onto an aggregate model and read back.",
        note="Delegation details are opaque tokens; up to 3 pools x 3 nodes.",
        design="DESIGN.md §3 C12"),
    "C13": dict(
        technique="TLA+ constructive definition of partitioning (FimADM) with the soundness clauses as TLC invariants over a family of "
                  "small aggregate models; every family member (+ the repository's advertisement files) partitioned by the real "
                  "generate_adms, projected models judged clause by clause by Trace_FimADM",
        text="For each aggregate model of the family x delegation layout TLC computes the expected per-delegation models; the real "
             "ADMs must contain exactly the delegated elements plus their context (interface keeps owner chain), carry only their "
             "own delegation, keep ids, and together cover the aggregate; the original model must be unchanged; re-keying once, "
             "twice and to the same key; partition again after the model has grown (one aggregate object).",
        note="Family: <=4 nodes with components/services/interfaces/links, 2 delegation ids, default + explicit delegations.",
        design="DESIGN.md §3 C13"),
    "C14": dict(
        technique="TLA+ combined-model machine (FimCBM: merge/unmerge/snapshot/rollback with provenance) model-checked (order "
                  "independence, unmerge inverse, provenance exact); TLC-generated merge/unmerge/snapshot histories executed on the "
                  "real merge code over the in-memory store and judged by Trace_FimCBM",
        text="TLC checks on the model that any merge order yields the same combined model, unmerge removes exactly the "
             "contribution and snapshot/rollback restores; every history of the bound is run through merge_adm/unmerge_adm/"
             "snapshot/rollback of the real class (Neo4j query layer replaced by the in-memory store through the abstract "
             "interface) and the decoded combined model compared at every step; get_delegations is observed in every state; "
             "seeded random histories of 6-16 steps over the same families cover histories the model identifies.",
        note="The Cypher-only helpers of Neo4jCBMGraph are C19's; one recorded deviation (connections carry no provenance).",
        design="DESIGN.md §3 C14"),
    "C17": dict(
        technique="TLA+ sliver-difference model (FimSliverDiff: added/removed/modified as set algebra over named children and "
                  "property maps); laws by TLC (diff(a,a) empty, antisymmetry, exactness); generated sliver pairs built with the "
                  "real sliver classes and diffed, result judged by Trace_FimSliverDiff",
        text="For every pair of slivers of the bound (nodes with components, services, interfaces; property edits of each "
             "comparable property) the real diff() must report exactly the model's added / removed / modified sets with the "
             "right flags, nothing for identical copies, and the mirror image when the arguments are swapped.",
        note="Up to 2 components x 2 services x 2 interfaces per sliver; property values are tokens.",
        design="DESIGN.md §3 C17"),
})

CHECKS.update({
    "C02": dict(
        technique="TLA+ model of the model graph as path -> element (FimSliverConv) with the settable vocabulary PINNED per sliver "
                  "class; Write/Rebuild/dict/JSON round trips and set/unset/get as total functions; laws by TLC; TLC-generated "
                  "family (containment shapes x every single property on every element + all-at-once assignments) executed on "
                  "the real conversion code and model-element API, judged by Trace_FimSliverConv",
        text="Every sliver of the family (node/component/service/interface/sub-interface/link shapes; each settable property "
             "alone on each element, all properties at once with two distinct concrete values per property) is written with "
             "add_*_sliver and rebuilt from EVERY nested element, and converted through sliver_to_dict / JSONSliver and back; "
             "then every set_property / set_properties / unset_property / set_property(None) / get_property on every element "
             "x property of populated graphs; after each call the complete decoded graph must equal the model (frame included), "
             "the converted original must be untouched, and the live setter vocabulary must equal the pinned table.",
        note="Two concrete values per property (each (property, value) distinct so misfiled values show); name/type are "
             "structural and never unset; three recorded deviations (image pair, stitch_node reset, unmapped unset).",
        design="DESIGN.md §3 C02"),
})

CHECKS.update({
    "C16": dict(
        technique="TLA+ character-level recognisers of every documented value domain (FimDomains: label formats and ranges, tag and "
                  "name patterns, size limits) + the entry points as a state machine whose invariant is 'everything stored lies "
                  "in its domain'; TLC enumerates a mutation grammar of members and near-misses; every candidate x scalar/list "
                  "form x entry point is executed on the real classes and model elements and judged by Trace_FimDomains",
        text="The oracle is written in TLA+ on strings (split, digit/hex classes, 32-bit-safe decimal comparison) and checked by TLC "
             "for two-sidedness and for the documented examples; ~27k (thorough ~150k) candidate operations - boundary numbers, "
             "wrong separators, dropped/extra groups, foreign characters at selected (thorough: all) positions, leading/trailing/"
             "embedded newline and blank, lengths around every size limit - arrive through constructor, copy-with-changes, "
             "from_json, element assignment and update_labels, tags, sliver/element names (create, assign, rename), boot "
             "scripts and the three JSON blob classes (text, object, element); accept/reject and the value read back must "
             "equal the oracle, and the stored state must satisfy the invariant after every call.",
        note="ASCII candidate grammar (Unicode digits/letters that \\d / \\w also match are outside it); ipv6 follows the "
             "published pattern (<= 8 groups of <= 4 hex digits), not RFC 4291.",
        design="DESIGN.md §3 C16"),
})

CHECKS.update({
    "C19": dict(
        technique="TLA+ lexer state machine for Cypher text (FimCypher: one step per character) with well-formedness predicates on "
                  "the token sequence and a history state 'operation instance -> statement shape'; lexer/escaping laws checked by "
                  "TLC over all strings of an adversarial alphabet; every public operation of the real Neo4j backend classes run "
                  "against a stand-in driver, captured (statement, parameters) judged by Trace_FimCypher",
        text="No server needed: the real Neo4jPropertyGraph / Neo4jGraphImporter / Neo4jCBMGraph / Neo4jASM / Neo4jADMGraph are "
             "constructed over a recording driver that answers with canned results (3 personas to drive both sides of the result "
             "handling); ~150 operation instances (every operation, swept over class labels, relations and special property names) x 3 personas x 3 value sets (benign; quotes, backslashes, braces, dollars; newlines, keywords, "
             "trailing backslash). TLC decides for every captured statement: literals terminated, brackets balanced, no template "
             "left-over, no comment opener, no dangling separator, every $parameter supplied, every referenced variable bound, "
             "literals that are themselves statements (APOC inner queries) decoded and judged like statements; and that the token shape "
             "of every statement of an operation instance is the same for all value sets (values reach the driver as parameters "
             "or inside correctly escaped literals).",
        note="Cypher is scanned, not parsed: the bound-variable check covers x.Prop and f(x) references only; statements from the "
             "rules/index JSON files are included; queries run inside Neo4j by APOC (the exported inner query) are checked as text.",
        design="DESIGN.md §3 C19"),
})

PENDING = {}


def main():
    props = [json.loads(l)["id"] for l in open(os.path.join(ROOT, "properties.jsonl"))]
    checks = []
    for pid in props:
        if pid not in CHECKS:
            continue
        c = CHECKS[pid]
        checks.append({
            "property_id": pid,
            "quick_cmd": f"cd /verif && PYTHONHASHSEED=0 /venv/bin/python -m harness.check {pid} --tier quick",
            "thorough_cmd": f"cd /verif && PYTHONHASHSEED=0 /venv/bin/python -m harness.check {pid} --tier thorough",
            "evidence_file": f"/verif/evidence/{pid}.json",
            "replay_cmd_template": "cd /verif && /venv/bin/python -m harness.replay {path} -v",
            "engine": "tla-pipeline",
            "level_claimed": {"category": c.get("level", "model_checking"), "text": c["text"], "design_ref": c["design"]},
            "level_note": c["note"],
            "technique": c["technique"],
        })
    na = [{"property_id": p, "reason": PENDING.get(p, "check not built yet in this round (work in progress, see DESIGN.md §10)")}
          for p in props if p not in CHECKS]
    man = {
        "version": 1,
        "setup_cmd": "cd /verif && /venv/bin/python -m harness.setup",
        "hooks": {"guard": "FABRIC_TESTBED_INFORMATIONMODEL_VERIF",
                  "enable": "no source hooks: everything is observed through the public API, run-time substitution of the "
                            "store lock, sys.settrace and a stand-in driver; the guard variable is reserved and unused",
                  "baseline_off_cmd": BASE,
                  "source_commits": [],
                  "add_only": True},
        "engines": [{"name": "tla-pipeline", "path": "/verif/harness",
                     "serves_properties": sorted(CHECKS),
                     "kind_free_text": "TLA+ specs in /verif/spec; TLC model checking + behaviour generation (Gen_*.cfg) + "
                                       "trace validation (Trace_*.tla) driven by harness/pipeline.py"}],
        "checks": checks,
        "not_applicable": na,
        "notes": "All checks: exit 0 held / 1 VIOLATION / 2 machinery failure. known_findings.json lists recorded defects.",
    }
    with open(os.path.join(ROOT, "MANIFEST.json"), "w") as f:
        json.dump(man, f, indent=1)


if __name__ == "__main__":
    main()
